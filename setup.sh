#!/bin/sh
# Nothing is built ahead of time: every check regenerates its scratch crate from /repo and
# compiles it with Kani at run time.  This only verifies that the tools the checks need exist.
set -e
cd "$(dirname "$0")"
export CARGO_NET_OFFLINE=true
cargo kani --version >/dev/null
python3 -c "import json,sys; json.load(open('MANIFEST.json'))"
mkdir -p evidence replays
echo "setup ok"
