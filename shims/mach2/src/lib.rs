//! Compile-only shim of the `mach2` items that `common::patch_function` (macOS) names.
//! No harness executes these; the macOS code that is checked is the pure encoder
//! `arm64_codegenerator::maybe_emit_long_jump`.
#![allow(non_camel_case_types, non_upper_case_globals, clippy::all)]
pub mod traps {
    pub unsafe fn mach_task_self() -> u32 {
        unimplemented!("mach shim")
    }
}
pub mod vm {
    pub unsafe fn mach_vm_protect(_task: u32, _addr: u64, _size: u64, _set_max: i32, _prot: i32) -> i32 {
        unimplemented!("mach shim")
    }
    #[allow(clippy::too_many_arguments)]
    pub unsafe fn mach_vm_remap(
        _target: u32, _addr: *mut u64, _size: u64, _mask: u64, _flags: i32, _src_task: u32, _src: u64, _copy: i32,
        _cur: *mut i32, _max: *mut i32, _inherit: u32,
    ) -> i32 {
        unimplemented!("mach shim")
    }
}
pub mod vm_inherit {
    pub const VM_INHERIT_NONE: u32 = 2;
}
pub mod vm_prot {
    pub const VM_PROT_COPY: i32 = 0x10;
}
pub mod vm_statistics {
    pub const VM_FLAGS_ANYWHERE: i32 = 1;
    pub const VM_FLAGS_OVERWRITE: i32 = 0x4000;
    pub const VM_FLAGS_RETURN_DATA_ADDR: i32 = 0x100000;
}
