//! Verification shim named `libc`.
//!
//! The unmodified injectorpp sources do `use libc::*` and call `mmap`, `munmap`,
//! `mprotect`, `sysconf`.  Under Kani this crate answers those calls from a
//! *simulated operating system* whose state lives in `sim`, and it owns the
//! *simulated code memory* that the stubs in `/verif/harness/rt.rs` route every
//! `ptr::copy_nonoverlapping` on an integer-valued address to.
//!
//! Nothing here shares code with injectorpp.  Every `assert!` whose message starts
//! with `VERIF[Cxx]` is an obligation of property Cxx; `MODEL:` messages mean the
//! harness left the envelope the model supports (reported as inconclusive).
#![allow(non_camel_case_types, non_upper_case_globals, static_mut_refs, clippy::all)]

pub use core::ffi::c_void;
pub type c_int = i32;
pub type c_long = i64;
pub type size_t = usize;
pub type off_t = i64;

pub const _SC_PAGESIZE: c_int = 30;
pub const PROT_READ: c_int = 1;
pub const PROT_WRITE: c_int = 2;
pub const PROT_EXEC: c_int = 4;
pub const MAP_PRIVATE: c_int = 2;
pub const MAP_ANONYMOUS: c_int = 0x20;
pub const MAP_ANON: c_int = 0x1000; // macOS value; only used by the macOS variant
pub const MAP_JIT: c_int = 0x0800; // macOS value
pub const MAP_FAILED: *mut c_void = !0 as *mut c_void;
pub const MAP_FIXED: c_int = 0x10;
pub const MAP_FIXED_NOREPLACE: c_int = 0x100000;
// macOS names (a64-macos variant; compile-only except mmap/munmap)
pub type mach_vm_address_t = u64;
pub type vm_prot_t = i32;
pub const VM_PROT_READ: vm_prot_t = 1;
pub const VM_PROT_WRITE: vm_prot_t = 2;
pub const VM_PROT_EXECUTE: vm_prot_t = 4;
pub unsafe fn pthread_jit_write_protect_np(_enabled: c_int) {}

pub mod sim {
    use core::ptr::addr_of_mut;

    /// bytes modelled per region (an entry slot or the start of a trampoline page)
    pub const RLEN: usize = 24;
    /// number of registered function entries
    pub const NE: usize = 3;
    /// number of trampoline mappings that may be created in one harness
    pub const NJ: usize = 4;
    /// user-space limit of simulated addresses
    pub const USER_TOP: u64 = 1u64 << 47;

    #[derive(Clone, Copy)]
    pub struct Region {
        pub magic: u32,
        pub base: u64,
        /// entry: registered; trampoline: currently mapped
        pub live: bool,
        /// number of bytes from `base` that the code may write
        pub slot: usize,
        pub bytes: [u8; RLEN],
        /// written since the last instruction-cache flush covering the byte
        pub dirty: [bool; RLEN],
        /// page protection allows writing this byte
        pub wr: [bool; RLEN],
        /// length given to mmap (trampolines)
        pub len: usize,
        /// total number of simulated writes that hit this region
        pub nwrites: u32,
        /// the page protection currently does not allow execution (W^X schemes clear and restore it)
        pub noexec: bool,
    }
    pub const EMPTY: Region = Region {
        magic: 0x5eed_c0de,
        base: 0,
        live: false,
        slot: 0,
        bytes: [0; RLEN],
        dirty: [false; RLEN],
        wr: [false; RLEN],
        len: 0,
        nwrites: 0,
        noexec: false,
    };

    /// ALL mutable model state lives in this one struct.  Kani 0.68 was measured to alias a
    /// zero-initialised scalar `static mut` with equal-valued constants of std (writing
    /// `static mut X: u64 = 0` changed what `Vec::new()` returned), so there are deliberately no
    /// scalar statics: one struct, with a magic first field that no constant shares.
    #[allow(non_snake_case)]
    pub struct State {
        pub MAGIC: u64,
        /// how many entry / trampoline slots the current harness uses (concrete; bounds every model loop)
        pub NE_ACT: usize,
        pub NJ_ACT: usize,
        /// next unused trampoline slot
        pub NJIT: usize,
        pub PAGE: u64,
        /// kernel model: 0 = cooperative (every mmap succeeds within COOP_RANGE of COOP_CENTER),
        /// 1 = any-kernel (each mmap fails or returns an arbitrary free page),
        /// 2 = layout-kernel (hint honoured iff that page is free in the layout)
        pub MODE: u8,
        pub COOP_CENTER: u64,
        pub COOP_RANGE: u64,
        /// layout-kernel: 0 = neighbourhood empty, 1 = full, 2 = exactly one free page
        pub LAYOUT: u8,
        pub LAYOUT_FREE: u64,
        /// layout-kernel: what a non-honoured hint gets: 0 = MAP_FAILED, else this address
        pub LAYOUT_FALLBACK: u64,
        /// extent of the neighbourhood the layout talks about: [LAYOUT_LO, LAYOUT_HI]
        pub LAYOUT_LO: u64,
        pub LAYOUT_HI: u64,
        /// mprotect may fail (symbolically) when set
        pub MPROTECT_MAY_FAIL: bool,
        /// any-kernel: the mmap call with this ordinal (1-based) succeeds strictly inside
        /// COOP_RANGE of COOP_CENTER (0 = never forced)
        pub ANY_FORCE_AT: u32,
        /// single-installation harnesses: at every mmap call the function must still be untouched
        /// and no earlier (rejected) trampoline may still be mapped
        pub ALLOC_STRICT: bool,
        // ---- event counters, read by the harnesses ----
        pub N_MMAP: u32,
        pub N_MMAP_OK: u32,
        pub N_MUNMAP: u32,
        pub N_MPROTECT: u32,
        pub N_WRITE: u32,
        pub N_FLUSH: u32,
        pub N_BARRIER: u32,
        /// true iff a barrier was executed after the most recent flush
        pub BARRIER_SINCE_FLUSH: bool,
        /// a simulated write happened while the process-wide injector lock was free
        pub UNLOCKED_WRITE: bool,
        // ---- harness-side switches (kept here for the same reason) ----
        /// simulated writes must happen under the injector lock (API-level harnesses)
        pub REQUIRE_LOCK: bool,
        /// value returned by the stub of std::thread::panicking()
        pub PANICKING: bool,
        /// when set, the stub of std::thread::panicking() (which call-count verification consults
        /// on a mismatch) requires every faked function to be restored already
        pub VERIFY_EXPECTS_RESTORED: bool,
        /// scratch cells for harnesses (symbolic budgets, effect values, ...)
        pub CELL: [u64; 8],
        /// backing store for symbolic `&'static str` signatures
        pub SIGBUF: [[u8; 24]; 2],
        /// the harness expects the next installation to be REFUSED: any mmap / mprotect / write of
        /// code memory while this is set is a violation ("refused target untouched")
        pub NO_TOUCH: bool,
    }
    /// The two region tables are separate statics (one big struct made every byte access a
    /// whole-struct update: 2.7x more clauses); `Region::magic` keeps their initial bytes unlike
    /// any constant of std.
    pub static mut ENT: [Region; NE] = [EMPTY; NE];
    pub static mut JIT: [Region; NJ] = [EMPTY; NJ];
    pub static mut S: State = State {
        MAGIC: 0x5eed_c0de_1234_5678,
        NE_ACT: NE,
        NJ_ACT: NJ,
        NJIT: 0,
        PAGE: 4096,
        MODE: 0,
        COOP_CENTER: 0,
        COOP_RANGE: 0x800_0000,
        LAYOUT: 0,
        LAYOUT_FREE: 0,
        LAYOUT_FALLBACK: 0,
        LAYOUT_LO: 0,
        LAYOUT_HI: 0,
        MPROTECT_MAY_FAIL: false,
        ANY_FORCE_AT: 0,
        ALLOC_STRICT: false,
        N_MMAP: 0,
        N_MMAP_OK: 0,
        N_MUNMAP: 0,
        N_MPROTECT: 0,
        N_WRITE: 0,
        N_FLUSH: 0,
        N_BARRIER: 0,
        BARRIER_SINCE_FLUSH: true,
        UNLOCKED_WRITE: false,
        REQUIRE_LOCK: false,
        PANICKING: false,
        VERIFY_EXPECTS_RESTORED: false,
        CELL: [0; 8],
        SIGBUF: [[0x20; 24]; 2],
        NO_TOUCH: false,
    };

    pub unsafe fn reset() {
        ENT = [EMPTY; NE];
        JIT = [EMPTY; NJ];
        S.NJIT = 0;
        S.N_MMAP = 0;
        S.N_MMAP_OK = 0;
        S.N_MUNMAP = 0;
        S.N_MPROTECT = 0;
        S.N_WRITE = 0;
        S.N_FLUSH = 0;
        S.N_BARRIER = 0;
        S.BARRIER_SINCE_FLUSH = true;
        S.UNLOCKED_WRITE = false;
        S.REQUIRE_LOCK = false;
        S.PANICKING = false;
        S.VERIFY_EXPECTS_RESTORED = false;
        S.MPROTECT_MAY_FAIL = false;
        S.ANY_FORCE_AT = 0;
        S.ALLOC_STRICT = false;
        S.NO_TOUCH = false;
    }

    /// Simulated addresses are plain integers below 2^47, plus the base of any registered
    /// region (entries registered at the address Kani gives a real function, e.g. the
    /// `<F as Future>::poll` that the async API patches, and trampolines placed next to them).
    /// Anything else is a real (CBMC object) pointer.
    #[inline]
    pub fn is_sim(addr: u64) -> bool {
        addr < USER_TOP || unsafe { is_region_base(addr) }
    }
    pub unsafe fn is_region_base(addr: u64) -> bool {
        let mut r = false;
        let mut i = 0;
        while i < S.NE_ACT {
            if ENT[i].live && ENT[i].base == addr {
                r = true;
            }
            i += 1;
        }
        let mut j = 0;
        while j < S.NJ_ACT {
            if JIT[j].base != 0 && JIT[j].base == addr {
                r = true;
            }
            j += 1;
        }
        r
    }

    #[inline]
    pub fn page_floor(a: u64) -> u64 {
        unsafe { a & !(S.PAGE - 1) }
    }
    #[inline]
    pub fn page_ceil(a: u64) -> u64 {
        unsafe { a.wrapping_add(S.PAGE - 1) & !(S.PAGE - 1) }
    }

    /// Register function entry `i` at `base` (text, initially not writable).
    pub unsafe fn register_entry(i: usize, base: u64, slot: usize, bytes: [u8; RLEN]) {
        let e = &mut *addr_of_mut!(ENT[i]);
        *e = EMPTY;
        e.base = base;
        e.live = true;
        e.slot = slot;
        e.bytes = bytes;
    }

    /// every registered entry has been written an even number of times (each patch undone)
    pub unsafe fn all_entries_restored() -> bool {
        let mut ok = true;
        let mut i = 0;
        while i < S.NE_ACT {
            if ENT[i].live && ENT[i].nwrites % 2 != 0 {
                ok = false;
            }
            i += 1;
        }
        ok
    }

    /// number of currently mapped trampolines
    pub unsafe fn live_jits() -> u32 {
        let mut n = 0;
        let mut i = 0;
        while i < NJ {
            if JIT[i].live {
                n += 1;
            }
            i += 1;
        }
        n
    }

    /// index of the live trampoline whose first page contains `addr`
    pub unsafe fn find_jit(addr: u64) -> Option<usize> {
        let mut i = 0;
        while i < NJ {
            if JIT[i].live && JIT[i].base == addr {
                return Some(i);
            }
            i += 1;
        }
        None
    }
    /// index of some live trampoline
    pub unsafe fn find_live() -> Option<usize> {
        let mut i = 0;
        while i < S.NJ_ACT {
            if JIT[i].live {
                return Some(i);
            }
            i += 1;
        }
        None
    }
    pub unsafe fn find_entry(addr: u64) -> Option<usize> {
        let mut i = 0;
        while i < S.NE_ACT {
            if ENT[i].live && ENT[i].base == addr {
                return Some(i);
            }
            i += 1;
        }
        None
    }

    unsafe fn store(r: &mut Region, tmp: &[u8; RLEN], n: usize, is_text: bool) {
        assert!(
            n <= r.slot,
            "VERIF[C03]: write longer than the designated entry slot / trampoline block"
        );
        let mut k = 0;
        while k < RLEN {
            if k < n {
                assert!(
                    r.wr[k],
                    "VERIF[C01]: write to a code byte whose page is not writable at that moment (SIGSEGV on hardware)"
                );
                r.bytes[k] = tmp[k];
                r.dirty[k] = true;
            }
            k += 1;
        }
        r.nwrites += 1;
    }

    /// copy `n` bytes from `tmp` into simulated memory at `addr`
    pub unsafe fn write_block(addr: u64, tmp: &[u8; RLEN], n: usize, lock_held: bool) {
        if n == 0 {
            return;
        }
        S.N_WRITE += 1;
        assert!(
            !S.NO_TOUCH,
            "VERIF[C09,C05,C10]: code memory was written by an installation that has to be refused"
        );
        if !lock_held {
            S.UNLOCKED_WRITE = true;
        }
        assert!(
            lock_held,
            "VERIF[C04]: code memory written while the process-wide injector lock is not held"
        );
        let mut i = 0;
        while i < S.NE_ACT {
            if ENT[i].live && ENT[i].base == addr {
                store(&mut *addr_of_mut!(ENT[i]), tmp, n, true);
                return;
            }
            i += 1;
        }
        let mut j = 0;
        while j < S.NJ_ACT {
            if JIT[j].live && JIT[j].base == addr {
                store(&mut *addr_of_mut!(JIT[j]), tmp, n, false);
                return;
            }
            j += 1;
        }
        // A write that starts INSIDE a designated region (a patch written in several pieces) is
        // legitimate code the block-level model cannot represent: inconclusive, not a violation.
        let mut i = 0;
        while i < S.NE_ACT {
            assert!(
                !(ENT[i].live && addr > ENT[i].base && addr < ENT[i].base.wrapping_add(ENT[i].slot as u64)),
                "MODEL: write starting inside a function entry slot (piecewise patch) is not supported by the block-level memory model"
            );
            i += 1;
        }
        let mut j = 0;
        while j < S.NJ_ACT {
            assert!(
                !(JIT[j].live && addr > JIT[j].base && addr < JIT[j].base.wrapping_add(RLEN as u64)),
                "MODEL: write starting inside a trampoline block (piecewise write) is not supported by the block-level memory model"
            );
            j += 1;
        }
        panic!("VERIF[C03]: write to an address that is neither a designated function entry nor a trampoline the injector mapped");
    }

    pub unsafe fn read_block(addr: u64, tmp: &mut [u8; RLEN], n: usize) {
        assert!(n <= RLEN, "VERIF[C03]: read longer than any entry slot");
        let mut i = 0;
        while i < S.NE_ACT {
            if ENT[i].live && ENT[i].base == addr {
                *tmp = ENT[i].bytes;
                return;
            }
            i += 1;
        }
        let mut j = 0;
        while j < S.NJ_ACT {
            if JIT[j].live && JIT[j].base == addr {
                *tmp = JIT[j].bytes;
                return;
            }
            j += 1;
        }
        panic!("VERIF[C03,C02,C16]: read from an address that is neither a designated function entry nor a live trampoline (the bytes saved for restoration are not the ones that get overwritten)");
    }

    unsafe fn flush_region(r: &mut Region, s: u64, e: u64) {
        if !r.live {
            return;
        }
        let mut k = 0;
        while k < RLEN {
            let a = r.base.wrapping_add(k as u64);
            if s <= a && a < e {
                r.dirty[k] = false;
            }
            k += 1;
        }
    }

    /// instruction-cache synchronisation of [s, e)
    pub unsafe fn flush(s: u64, e: u64) {
        S.N_FLUSH += 1;
        S.BARRIER_SINCE_FLUSH = false;
        let mut i = 0;
        while i < S.NE_ACT {
            flush_region(&mut *addr_of_mut!(ENT[i]), s, e);
            i += 1;
        }
        let mut j = 0;
        while j < S.NJ_ACT {
            flush_region(&mut *addr_of_mut!(JIT[j]), s, e);
            j += 1;
        }
    }

    pub unsafe fn barrier() {
        S.N_BARRIER += 1;
        S.BARRIER_SINCE_FLUSH = true;
    }

    /// no byte of any live region is dirty
    pub unsafe fn all_clean() -> bool {
        let mut ok = true;
        let mut i = 0;
        while i < S.NE_ACT {
            if ENT[i].live {
                let mut k = 0;
                while k < RLEN {
                    if ENT[i].dirty[k] {
                        ok = false;
                    }
                    k += 1;
                }
            }
            i += 1;
        }
        let mut j = 0;
        while j < S.NJ_ACT {
            if JIT[j].live {
                let mut k = 0;
                while k < RLEN {
                    if JIT[j].dirty[k] {
                        ok = false;
                    }
                    k += 1;
                }
            }
            j += 1;
        }
        ok
    }

    /// would a mapping [a, a+maplen) collide with something the process already has?
    pub unsafe fn collides(a: u64, maplen: u64) -> bool {
        let end = a.wrapping_add(maplen);
        let mut i = 0;
        while i < S.NE_ACT {
            if ENT[i].live {
                let lo = page_floor(ENT[i].base);
                let hi = page_ceil(ENT[i].base.wrapping_add(RLEN as u64));
                if a < hi && lo < end {
                    return true;
                }
            }
            i += 1;
        }
        let mut j = 0;
        while j < S.NJ_ACT {
            if JIT[j].live {
                let lo = JIT[j].base;
                let hi = lo.wrapping_add(page_ceil(JIT[j].len as u64));
                if a < hi && lo < end {
                    return true;
                }
            }
            j += 1;
        }
        false
    }
}

#[cfg(kani)]
fn nondet_u64() -> u64 {
    kani::any()
}
#[cfg(kani)]
fn nondet_bool() -> bool {
    kani::any()
}
#[cfg(kani)]
fn assume(c: bool) {
    kani::assume(c)
}
#[cfg(not(kani))]
fn nondet_u64() -> u64 {
    unimplemented!("the simulated OS only runs under Kani")
}
#[cfg(not(kani))]
fn nondet_bool() -> bool {
    unimplemented!("the simulated OS only runs under Kani")
}
#[cfg(not(kani))]
fn assume(_c: bool) {}

unsafe fn new_mapping(r: u64, len: size_t, prot: c_int) -> *mut c_void {
    // first slot that is not currently mapped (slots of unmapped trampolines are recycled)
    let mut j = sim::S.NJ_ACT;
    let mut i = 0;
    while i < sim::S.NJ_ACT {
        if j == sim::S.NJ_ACT && !sim::JIT[i].live {
            j = i;
        }
        i += 1;
    }
    assert!(j < sim::S.NJ_ACT, "MODEL: more simultaneously live trampoline mappings than the model has slots");
    if j >= sim::S.NJIT {
        sim::S.NJIT = j + 1;
    }
    sim::JIT[j] = sim::EMPTY;
    sim::JIT[j].base = r;
    sim::JIT[j].live = true;
    sim::JIT[j].slot = sim::RLEN;
    sim::JIT[j].len = len;
    sim::JIT[j].wr = [prot & PROT_WRITE != 0; sim::RLEN];
    sim::JIT[j].noexec = prot & PROT_EXEC == 0;
    sim::S.N_MMAP_OK += 1;
    r as *mut c_void
}

pub unsafe fn mmap(
    addr: *mut c_void,
    len: size_t,
    prot: c_int,
    flags: c_int,
    _fd: c_int,
    _off: off_t,
) -> *mut c_void {
    sim::S.N_MMAP += 1;
    assert!(
        !sim::S.NO_TOUCH,
        "VERIF[C09,C05,C10]: a trampoline was mapped by an installation that has to be refused"
    );
    assert!(len > 0 && len <= sim::RLEN, "MODEL: trampoline length outside the modelled block");
    let maplen = sim::page_ceil(len as u64);
    let hint = addr as u64;
    if flags & MAP_FIXED != 0 && flags & MAP_FIXED_NOREPLACE == 0 {
        // MAP_FIXED places the mapping at exactly `addr` and silently REPLACES whatever is mapped
        // there.  The injector holds nothing at an address it has not currently mapped, and what the
        // program keeps there is the environment's choice (C03/C11 quantify over every occupancy of
        // the neighbourhood): known occupants collide, unknown ones are an arbitrary boolean.
        if hint == 0 || hint & (sim::S.PAGE - 1) != 0 {
            return MAP_FAILED; // EINVAL
        }
        let occupied = sim::collides(hint, maplen) || nondet_bool();
        assert!(
            !occupied,
            "VERIF[C03]: mmap(MAP_FIXED) at an address the injector does not hold replaces whatever the program has mapped there (memory that was never designated)"
        );
        return new_mapping(hint, len, prot);
    }
    if sim::S.ALLOC_STRICT {
        assert!(
            sim::live_jits() == 0,
            "VERIF[C11,C12]: a placement that was tried and rejected is still mapped when the next one is tried"
        );
        let mut i = 0;
        while i < sim::S.NE_ACT {
            assert!(
                !sim::ENT[i].live || sim::ENT[i].nwrites == 0,
                "VERIF[C11]: the function was modified before a trampoline within reach was secured"
            );
            i += 1;
        }
    }
    match sim::S.MODE {
        0 => {
            let r = nondet_u64();
            // functions that live at an address Kani assigned (>= 2^47) get their trampoline next to them
            let top = if sim::S.COOP_CENTER >= sim::USER_TOP { u64::MAX - (1 << 30) } else { sim::USER_TOP - maplen };
            assume(r & (sim::S.PAGE - 1) == 0 && r >= sim::S.PAGE && r < top);
            assume(r.abs_diff(sim::S.COOP_CENTER) <= sim::S.COOP_RANGE);
            assume(!sim::collides(r, maplen));
            new_mapping(r, len, prot)
        }
        1 => {
            let forced = sim::S.ANY_FORCE_AT != 0 && sim::S.N_MMAP >= sim::S.ANY_FORCE_AT;
            if !forced && nondet_bool() {
                return MAP_FAILED;
            }
            let r = nondet_u64();
            assume(r & (sim::S.PAGE - 1) == 0 && r >= sim::S.PAGE && r < sim::USER_TOP - maplen);
            assume(!sim::collides(r, maplen));
            if forced {
                assume(r.abs_diff(sim::S.COOP_CENTER) < sim::S.COOP_RANGE);
            }
            new_mapping(r, len, prot)
        }
        _ => {
            // Linux without MAP_FIXED: the hint (rounded down to a page) is used iff
            // that range is free, otherwise the kernel picks by itself.
            let h = sim::page_floor(hint);
            let in_hood = h >= sim::S.LAYOUT_LO && h <= sim::S.LAYOUT_HI;
            let free = h >= sim::S.PAGE
                && !sim::collides(h, maplen)
                && (!in_hood
                    || match sim::S.LAYOUT {
                        0 => true,
                        1 => false,
                        _ => h == sim::S.LAYOUT_FREE,
                    });
            if free {
                return new_mapping(h, len, prot);
            }
            let fb = sim::S.LAYOUT_FALLBACK;
            if fb == 0 || sim::collides(fb, maplen) {
                return MAP_FAILED;
            }
            new_mapping(fb, len, prot)
        }
    }
}

pub unsafe fn munmap(addr: *mut c_void, len: size_t) -> c_int {
    sim::S.N_MUNMAP += 1;
    let a = addr as u64;
    let mut j = 0;
    while j < sim::S.NJ_ACT {
        if sim::JIT[j].live && sim::JIT[j].base == a {
            assert!(
                len > 0 && sim::page_ceil(len as u64) == sim::page_ceil(sim::JIT[j].len as u64),
                "VERIF[C12]: munmap length differs from the length of the trampoline mapping"
            );
            sim::JIT[j].live = false;
            return 0;
        }
        j += 1;
    }
    panic!("VERIF[C12,C03,C11]: munmap of an address that is not a live trampoline mapping (double free, or memory the injector does not own)");
}

pub unsafe fn mprotect(addr: *mut c_void, len: size_t, prot: c_int) -> c_int {
    sim::S.N_MPROTECT += 1;
    assert!(
        !sim::S.NO_TOUCH,
        "VERIF[C09,C05,C10]: page protection was changed by an installation that has to be refused"
    );
    let a = addr as u64;
    if a & (sim::S.PAGE - 1) != 0 {
        return -1; // EINVAL
    }
    if sim::S.MPROTECT_MAY_FAIL && nondet_bool() {
        return -1;
    }
    let end = a.wrapping_add(sim::page_ceil(len as u64));
    let w = prot & PROT_WRITE != 0;
    let nx = prot & PROT_EXEC == 0;
    let mut i = 0;
    while i < sim::S.NE_ACT {
        if sim::ENT[i].live {
            let mut k = 0;
            while k < sim::RLEN {
                let b = sim::ENT[i].base.wrapping_add(k as u64);
                if a <= b && b < end {
                    sim::ENT[i].wr[k] = w;
                    if k == 0 {
                        sim::ENT[i].noexec = nx;
                    }
                }
                k += 1;
            }
        }
        i += 1;
    }
    let mut j = 0;
    while j < sim::S.NJ_ACT {
        if sim::JIT[j].live && a <= sim::JIT[j].base && sim::JIT[j].base < end {
            sim::JIT[j].wr = [w; sim::RLEN];
            sim::JIT[j].noexec = nx;
        }
        j += 1;
    }
    0
}

pub const MADV_DONTNEED: c_int = 4;
pub const MADV_FREE: c_int = 8;
/// `madvise`: advice that discards page contents (DONTNEED / FREE) over program text loses every byte of
/// the page that differs from its backing object (all of it for anonymous code): that is a
/// modification of executable memory the injector was never asked to make.
pub unsafe fn madvise(addr: *mut c_void, len: size_t, advice: c_int) -> c_int {
    let a = addr as u64;
    let end = a.wrapping_add(sim::page_ceil(len as u64));
    if advice == MADV_DONTNEED || advice == MADV_FREE {
        let mut i = 0;
        while i < sim::S.NE_ACT {
            if sim::ENT[i].live {
                let lo = sim::page_floor(sim::ENT[i].base);
                assert!(
                    !(a < lo.wrapping_add(sim::S.PAGE) && lo < end),
                    "VERIF[C03]: madvise(DONTNEED/FREE) discards the contents of a page of program text (bytes of functions that were never named are lost)"
                );
            }
            i += 1;
        }
    }
    0
}

pub unsafe fn sysconf(_name: c_int) -> c_long {
    sim::S.PAGE as c_long
}
