#!/usr/bin/env python3
"""seeded/INDEX.md from the meta.json files"""
import json, glob, os
V = os.path.dirname(os.path.dirname(os.path.abspath(__file__)))
rows = []
for m in sorted(glob.glob(os.path.join(V, "seeded", "*", "meta.json"))):
    d = json.load(open(m))
    det = "; ".join("%s %s: %s" % (x["check"], x.get("tier", ""), x["harness"]) for x in d.get("detected_by", []))
    rows.append("| %s | %s | %s | %s | %s | %s |" % (d["id"], d["property"], d["change"], d["needs"], det or "MISSED", d.get("note", "")))
out = ["# Seeded changes and which checks catch them", "",
       "Each change was written by an independent sub-agent (property text + own worktree only), passes the 71 existing tests, and comes with a demonstration that fails with the change and passes without it (re-confirmed with tools/confirm_seed.sh).",
       "", "| id | property broken | change | needs | caught by | note |", "|---|---|---|---|---|---|"] + rows
out += ["", "Self-made sensitivity mutants for code that cannot execute on this host (AArch64 / ARM) are in /verif/mutants (no native demonstration possible); results in mutants/RESULTS.md."]
open(os.path.join(V, "seeded", "INDEX.md"), "w").write("\n".join(out) + "\n")
print("wrote seeded/INDEX.md with %d rows" % len(rows))
