//! Native premise for C09 (NOT a solver step): the link from function-pointer TYPES to the
//! strings the gate compares.  For a family of types differing in arity, one parameter type,
//! return type, reference mutability, unsafety and ABI, every ordered pair is put through the
//! real type-checked installation: a structurally different pair must be refused with a
//! signature-mismatch panic, an identical pair must install; closure! and fake! forms of the
//! same type must be accepted for a func! target.  Prints one line per failure and a summary.
#![allow(improper_ctypes_definitions)]
use injectorpp::interface::injector::*;
use std::panic::{catch_unwind, AssertUnwindSafe};

macro_rules! item {
    ($t:ident, $r:ident, ($($q:tt)*), ($($a:ident : $ty:ty),*), $ret:ty, $v1:expr, $v2:expr) => {
        #[inline(never)] $($q)* fn $t($($a: $ty),*) -> $ret { std::hint::black_box($v1) }
        #[inline(never)] $($q)* fn $r($($a: $ty),*) -> $ret { std::hint::black_box($v2) }
    };
}
item!(t0, r0, (), (), (), (), ());
item!(t1, r1, (), (a: i32), (), { let _ = a; }, { let _ = a; });
item!(t2, r2, (), (a: i32, b: i32), (), { let _ = (a, b); }, { let _ = (a, b); });
item!(t3, r3, (), (a: i64), (), { let _ = a; }, { let _ = a; });
item!(t4, r4, (), (a: i32), i32, a + 1, a + 2);
item!(t5, r5, (), (a: i32), i64, a as i64 + 1, a as i64 + 2);
item!(t6, r6, (), (a: &i32), (), { let _ = a; }, { let _ = a; });
item!(t7, r7, (), (a: &mut i32), (), { *a += 0; }, { *a += 0; });
item!(t8, r8, (unsafe), (a: i32), (), { let _ = a; }, { let _ = a; });
item!(t9, r9, (extern "C"), (a: i32), (), { let _ = a; }, { let _ = a; });
item!(t10, r10, (unsafe extern "C"), (a: i32), (), { let _ = a; }, { let _ = a; });
item!(t11, r11, (), (a: i32), bool, a > 0, a > 1);
item!(t12, r12, (), (a: i32), u32, a as u32 + 1, a as u32 + 2);

// ---- C10 gate family: real types whose names do / do not have `bool` as top-level return type ----
#[inline(never)] fn b0() -> bool { std::hint::black_box(true) }
#[inline(never)] fn b1(a: i32) -> bool { std::hint::black_box(a > 0) }
#[inline(never)] unsafe extern "C" fn b2(a: i32) -> bool { std::hint::black_box(a > 0) }
#[inline(never)] fn b3(f: fn() -> bool) -> bool { std::hint::black_box(f()) }
#[inline(never)] fn b4(s: &str) -> bool { std::hint::black_box(s.is_empty()) }
#[inline(never)] fn n0() -> u8 { std::hint::black_box(1) }
#[inline(never)] fn n1() { std::hint::black_box(()); }
#[inline(never)] fn n2() -> fn() -> bool { std::hint::black_box(b0) }
#[inline(never)] fn n3(f: fn() -> bool) { let _ = std::hint::black_box(f); }
static DYN_TRUE: fn() -> bool = b0;
#[inline(never)] fn n4() -> &'static dyn Fn() -> bool { std::hint::black_box(&DYN_TRUE) }
#[inline(never)] fn n5(_x: u8) -> *const dyn FnMut(u8) -> bool { std::hint::black_box(std::ptr::null::<fn(u8) -> bool>() as *const dyn FnMut(u8) -> bool) }
#[inline(never)] fn n6() -> Box<dyn Fn() -> bool> { std::hint::black_box(Box::new(|| true)) }
#[inline(never)] fn n7() -> Option<bool> { std::hint::black_box(Some(true)) }
#[inline(never)] fn n8() -> (bool,) { std::hint::black_box((true,)) }

fn bool_gate_family() -> (usize, usize) {
    type Mk = fn() -> FuncPtr;
    let fam: Vec<(&str, Mk, bool)> = vec![
        ("fn() -> bool", || injectorpp::func!(b0, fn() -> bool), true),
        ("fn(i32) -> bool", || injectorpp::func!(b1, fn(i32) -> bool), true),
        ("unsafe extern \"C\" fn(i32) -> bool", || injectorpp::func!(b2, unsafe extern "C" fn(i32) -> bool), true),
        ("fn(fn() -> bool) -> bool", || injectorpp::func!(b3, fn(fn() -> bool) -> bool), true),
        ("fn(&str) -> bool", || injectorpp::func!(b4, fn(&str) -> bool), true),
        ("fn() -> u8", || injectorpp::func!(n0, fn() -> u8), false),
        ("fn()", || injectorpp::func!(n1, fn()), false),
        ("fn() -> fn() -> bool", || injectorpp::func!(n2, fn() -> fn() -> bool), false),
        ("fn(fn() -> bool)", || injectorpp::func!(n3, fn(fn() -> bool)), false),
        ("fn() -> &dyn Fn() -> bool", || injectorpp::func!(n4, fn() -> &'static dyn Fn() -> bool), false),
        ("fn(u8) -> *const dyn FnMut(u8) -> bool", || injectorpp::func!(n5, fn(u8) -> *const dyn FnMut(u8) -> bool), false),
        ("fn() -> Box<dyn Fn() -> bool>", || injectorpp::func!(n6, fn() -> Box<dyn Fn() -> bool>), false),
        ("fn() -> Option<bool>", || injectorpp::func!(n7, fn() -> Option<bool>), false),
        ("fn() -> (bool,)", || injectorpp::func!(n8, fn() -> (bool,)), false),
    ];
    let (mut n, mut bad) = (0, 0);
    for (name, mk, want) in fam.iter() {
        n += 1;
        let r = catch_unwind(AssertUnwindSafe(|| {
            let mut inj = InjectorPP::new();
            inj.when_called(mk()).will_return_boolean(true);
        }));
        if r.is_ok() != *want {
            bad += 1;
            println!("BOOLFAIL will_return_boolean {} a target of type `{name}`", if r.is_ok() { "ACCEPTED" } else { "REFUSED" });
        }
    }
    (n, bad)
}

// ---- C14 native premise: re-fake / sibling / drop sequence on real async functions ----
async fn quota() -> u32 { std::hint::black_box(6) }
async fn limit() -> u32 { std::hint::black_box(78) }
async fn by_ref(x: &u32) -> u32 { std::hint::black_box(*x + 1) }
fn block_on<F: std::future::Future>(f: F) -> F::Output {
    use std::sync::Arc;
    use std::task::{Context, Poll, Wake, Waker};
    struct Noop;
    impl Wake for Noop { fn wake(self: Arc<Self>) {} }
    let waker = Waker::from(Arc::new(Noop));
    let mut cx = Context::from_waker(&waker);
    let mut f = std::pin::pin!(f);
    for _ in 0..1000 {
        if let Poll::Ready(v) = f.as_mut().poll(&mut cx) { return v; }
    }
    panic!("future did not complete");
}
fn async_sequence() -> i32 {
    {
        let mut inj = InjectorPP::new();
        inj.when_called_async(injectorpp::async_func!(quota(), u32)).will_return_async(injectorpp::async_return!(111, u32));
        inj.when_called_async(injectorpp::async_func!(limit(), u32)).will_return_async(injectorpp::async_return!(333, u32));
        if block_on(quota()) != 111 { println!("ASYNCFAIL first fake of quota not in effect"); return 3; }
        inj.when_called_async(injectorpp::async_func!(quota(), u32)).will_return_async(injectorpp::async_return!(222, u32));
        let (a, b, c) = (block_on(quota()), block_on(quota()), block_on(limit()));
        if (a, b, c) != (222, 222, 333) { println!("ASYNCFAIL after re-fake: quota, quota, limit = {a}, {b}, {c} (expected 222, 222, 333)"); return 3; }
        let seven = 7u32;
        if block_on(by_ref(&seven)) != 8 { println!("ASYNCFAIL an async function that was not faked changed behaviour"); return 3; }
    }
    let (a, c) = (block_on(quota()), block_on(limit()));
    if (a, c) != (6, 78) { println!("ASYNCFAIL after drop: quota, limit = {a}, {c} (expected 6, 78)"); return 3; }
    0
}

fn main() {
    if std::env::args().nth(1).as_deref() == Some("async") {
        unsafe {
            let pid = libc::fork();
            if pid == 0 {
                let code = std::panic::catch_unwind(async_sequence).unwrap_or(5);
                libc::_exit(code);
            }
            let mut st: i32 = 0;
            libc::waitpid(pid, &mut st, 0);
            if libc::WIFSIGNALED(st) {
                println!("ASYNCFAIL child killed by signal {} (control went into unmapped memory)", libc::WTERMSIG(st));
                println!("ASYNCSUMMARY failures=1");
                std::process::exit(3);
            }
            let c = libc::WEXITSTATUS(st);
            println!("ASYNCSUMMARY failures={}", if c == 0 { 0 } else { 1 });
            std::process::exit(if c == 0 { 0 } else { 3 });
        }
    }
    if std::env::args().nth(1).as_deref() == Some("bool") {
        std::panic::set_hook(Box::new(|_| {}));
        let (n, bad) = bool_gate_family();
        println!("BOOLSUMMARY types={n} failures={bad}");
        std::process::exit(if bad == 0 { 0 } else { 3 });
    }
    type Mk = fn() -> FuncPtr;
    let targets: Vec<(&str, Mk, Mk)> = vec![
        ("fn()", || injectorpp::func!(t0, fn()), || injectorpp::func!(r0, fn())),
        ("fn(i32)", || injectorpp::func!(t1, fn(i32)), || injectorpp::func!(r1, fn(i32))),
        ("fn(i32, i32)", || injectorpp::func!(t2, fn(i32, i32)), || injectorpp::func!(r2, fn(i32, i32))),
        ("fn(i64)", || injectorpp::func!(t3, fn(i64)), || injectorpp::func!(r3, fn(i64))),
        ("fn(i32) -> i32", || injectorpp::func!(t4, fn(i32) -> i32), || injectorpp::func!(r4, fn(i32) -> i32)),
        ("fn(i32) -> i64", || injectorpp::func!(t5, fn(i32) -> i64), || injectorpp::func!(r5, fn(i32) -> i64)),
        ("fn(&i32)", || injectorpp::func!(t6, fn(&i32)), || injectorpp::func!(r6, fn(&i32))),
        ("fn(&mut i32)", || injectorpp::func!(t7, fn(&mut i32)), || injectorpp::func!(r7, fn(&mut i32))),
        ("unsafe fn(i32)", || injectorpp::func!(t8, unsafe fn(i32)), || injectorpp::func!(r8, unsafe fn(i32))),
        ("extern \"C\" fn(i32)", || injectorpp::func!(t9, extern "C" fn(i32)), || injectorpp::func!(r9, extern "C" fn(i32))),
        ("unsafe extern \"C\" fn(i32)", || injectorpp::func!(t10, unsafe extern "C" fn(i32)), || injectorpp::func!(r10, unsafe extern "C" fn(i32))),
        ("fn(i32) -> bool", || injectorpp::func!(t11, fn(i32) -> bool), || injectorpp::func!(r11, fn(i32) -> bool)),
        ("fn(i32) -> u32", || injectorpp::func!(t12, fn(i32) -> u32), || injectorpp::func!(r12, fn(i32) -> u32)),
    ];
    std::panic::set_hook(Box::new(|_| {}));
    let (mut pairs, mut bad) = (0, 0);
    for (i, (na, mk_target, _)) in targets.iter().enumerate() {
        for (j, (nb, _, mk_repl)) in targets.iter().enumerate() {
            pairs += 1;
            let r = catch_unwind(AssertUnwindSafe(|| {
                let mut inj = InjectorPP::new();
                inj.when_called(mk_target()).will_execute_raw(mk_repl());
            }));
            let msg = match &r {
                Err(e) => e.downcast_ref::<String>().cloned().or_else(|| e.downcast_ref::<&str>().map(|s| s.to_string())).unwrap_or_default(),
                Ok(_) => String::new(),
            };
            if i == j {
                if r.is_err() {
                    bad += 1;
                    println!("FAIL identical types refused: {na} / {nb}: {msg}");
                }
            } else if r.is_ok() {
                bad += 1;
                println!("FAIL structurally different types accepted: target {na} replacement {nb}");
            } else if !msg.contains("Signature mismatch") {
                bad += 1;
                println!("FAIL refused without a signature-mismatch message: target {na} replacement {nb}: {msg}");
            }
        }
    }
    // closure! and fake! forms of the same type are accepted for a func! target
    let forms: Vec<(&str, Box<dyn Fn()>)> = vec![
        ("closure!", Box::new(|| {
            let mut inj = InjectorPP::new();
            inj.when_called(injectorpp::func!(t4, fn(i32) -> i32)).will_execute_raw(injectorpp::closure!(|a: i32| -> i32 { a + 5 }, fn(i32) -> i32));
            assert_eq!(t4(1), 6);
        })),
        ("fake!", Box::new(|| {
            let mut inj = InjectorPP::new();
            inj.when_called(injectorpp::func!(t4, fn(i32) -> i32)).will_execute(injectorpp::fake!(func_type: fn(a: i32) -> i32, returns: a + 7));
            assert_eq!(t4(1), 8);
        })),
        ("func_info simplified form", Box::new(|| {
            let mut inj = InjectorPP::new();
            inj.when_called(injectorpp::func!(fn (t4)(i32) -> i32)).will_execute_raw(injectorpp::func!(r4, fn(i32) -> i32));
            assert_eq!(t4(1), 3);
        })),
    ];
    for (name, f) in forms.iter() {
        pairs += 1;
        if catch_unwind(AssertUnwindSafe(|| f())).is_err() {
            bad += 1;
            println!("FAIL the {name} form of fn(i32) -> i32 is not accepted for a func! target of the same type");
        }
    }
    // unchecked pointer paired with a type-carrying one
    pairs += 1;
    let r = catch_unwind(AssertUnwindSafe(|| {
        let mut inj = InjectorPP::new();
        inj.when_called(injectorpp::func!(t4, fn(i32) -> i32)).will_execute_raw(unsafe { injectorpp::func_unchecked!(r4) });
    }));
    if r.is_ok() {
        bad += 1;
        println!("FAIL an unchecked pointer was accepted by the type-checked installation");
    }
    println!("SUMMARY pairs={pairs} failures={bad} types={}", targets.len());
    std::process::exit(if bad == 0 { 0 } else { 3 });
}
