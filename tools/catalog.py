"""Harness and property catalogue (what each harness encodes, bounds, expected panics, covers)."""
import os, re, json, subprocess, shutil, tempfile
import regen

VERIF = regen.VERIF

COMMON_ASSUMPTIONS = [
    "R1-R4 (DESIGN.md 1.1): the checked text is /repo/src with cfg(target_arch/target_os) keys resolved for the variant, asm! replaced by a barrier marker, and cfg(kani)-only read accessors appended; the diff is audited on every run",
    "Kani stubs: std::ptr::copy_nonoverlapping -> simulated memory for integer-valued addresses (< 2^47), real copies otherwise; <*mut u8>::add -> wrapping_add; the platform cache-flush primitive -> dirty-bit model",
    "libc shim: mmap/munmap/mprotect/sysconf answered by the simulated OS in /verif/shims/libc (kernel model named per harness)",
    "the CPU decodes instructions as the independent interpreter in /verif/harness/*dec.rs does (written from the architecture manuals)",
    "Kani models the dev profile (overflow checks on); CBMC/CaDiCaL are trusted",
]

X64_CORE_FUNCS = [
    "PatchAmd64::replace_function_with_other_function", "PatchAmd64::replace_function_return_boolean",
    "patch_amd64::generate_branch_to_target_function", "patch_amd64::generate_will_return_boolean_jit_code",
    "patch_amd64::patch_and_guard", "common::allocate_jit_memory", "common::allocate_jit_memory_unix",
    "common::read_bytes", "common::patch_function", "common::make_memory_writable_and_executable_linux",
    "common::inject_asm_code", "common::clear_cache", "PatchGuard::new", "PatchGuard::drop",
]

HARNESSES = {}


def H(name, **kw):
    kw.setdefault("modules", [])
    kw.setdefault("covers", [])
    kw.setdefault("expected", [])
    kw.setdefault("must_reach", [])
    HARNESSES[name] = kw


def fq(name):
    s = HARNESSES[name]
    return "verif::%s::%s" % (s.get("mod") or s["modules"][-1], name)


# ---------------------------------------------------------------------------------------------
# family A: x86-64, one installation at injector_core level
# ---------------------------------------------------------------------------------------------
H("x64_core_redirect", variant="x64-linux", modules=["rt", "x64dec", "x64_core"],
  covers=["COVER: rel32 trampoline form", "COVER: abs64 trampoline form", "COVER: page writable before the installation", "COVER: page read-only before the installation",
          "COVER: entry patch straddles a page boundary", "COVER: target below 128 MiB",
          "COVER: trampoline above the target", "COVER: trampoline below the target"],
  functions=X64_CORE_FUNCS,
  symbolic="f in [4096,2^46) any page offset; 24 initial entry bytes; page initially writable or not; t in [1,2^63); trampoline j = any free page with |j-f| <= 128 MiB; full register file, rsp, return address",
  bounds="one installation + drop; loop unwind 26 (covers every loop in the path; unwinding assertions on)",
  assumptions=["allocate_jit_memory is replaced by its contract (a fresh page anywhere within +-128 MiB of the target); the real retry loop + real entry branch are decided by the x64_alloc harnesses (C11)",
               "the fake's address is not inside the patched entry slot or the trampoline page"],
  cex_schema=[("f", 8, 1), ("entry_bytes", 1, 24), ("was_writable", 1, 1), ("t", 8, 1), ("j", 8, 1)],
  replay="replay_x64_core")
H("x64_core_boolean", variant="x64-linux", modules=["rt", "x64dec", "x64_core"],
  covers=["COVER: true", "COVER: false"],
  functions=X64_CORE_FUNCS,
  symbolic="f, 24 entry bytes, value in {true,false}, j as above; full register file, rsp, return address",
  bounds="one installation + drop; loop unwind 26",
  cex_schema=[("f", 8, 1), ("entry_bytes", 1, 24), ("value", 1, 1), ("j", 8, 1)],
  replay="replay_x64_core")


H("win_core_redirect", variant="x64-windows", modules=["rt", "x64dec", "win_core"],
  covers=["COVER: 12-byte entry form", "COVER: 5-byte entry form", "COVER: 12-byte entry straddles a page boundary", "COVER: trampoline almost 2 GiB away"],
  functions=[f for f in X64_CORE_FUNCS if "linux" not in f and "unix" not in f] + ["common::make_memory_writable_and_executable_windows", "common::clear_cache (FlushInstructionCache path)", "PatchGuard::drop (VirtualFree path)"],
  symbolic="f in [2^33,2^46), t in [1,2^63), trampoline anywhere within +-2 GiB of the function: both the 5-byte rel32 and the 12-byte mov/jmp entry patch occur",
  bounds="one installation + drop; unwind 26; the six WinAPI externs are stubbed onto the simulated OS",
  assumptions=["x64-windows is simulated: cfg(target_os) resolved to windows, VirtualAlloc/VirtualProtect/VirtualFree/FlushInstructionCache/GetCurrentProcess/get_page_size stubbed; the Windows allocator loop itself (2^20 iterations) is replaced by its contract"],
  cex_schema=[("f", 8, 1), ("entry_bytes", 1, 24), ("t", 8, 1), ("j", 8, 1)])

# ---------------------------------------------------------------------------------------------
# family B: x86-64 Linux, histories through the public API
# ---------------------------------------------------------------------------------------------
API_FUNCS = ["InjectorPP::new", "InjectorPP::prevent", "InjectorPP::when_called", "WhenCalledBuilder::will_execute_raw",
             "WhenCalledBuilder::will_return_boolean", "FuncPtr::new", "NoPoisonMutex::lock", "InjectorPP::drop (drop glue: guards, verifiers, _lock)",
             "WhenCalled::will_execute_guard", "WhenCalled::will_return_boolean_guard"]
API_ASSUME = ["history harnesses replace allocate_jit_memory by its contract (a fresh mapping the entry branch can reach, via the cooperative mmap model); the real allocator runs in the *_core_* and C11 harnesses",
              "fake addresses are outside the patched entry slots and outside trampoline pages",
              "std::sync::Mutex as modelled by Kani (sequential lock/try_lock/unlock)"]
for name, L, two in (("x64_api_hist_l1", 1, False), ("x64_api_hist_l2", 2, False), ("x64_api_hist_l3", 3, False), ("x64_api_hist_l1x2", 1, True)):
    H(name, variant="x64-linux", modules=["rt", "x64dec", "x64_api"],
      covers=(["COVER: same function faked twice", "COVER: two functions faked"] if L >= 2 else []),
      functions=API_FUNCS + X64_CORE_FUNCS,
      symbolic="two function entries at arbitrary addresses (16-byte packing allowed) with symbolic contents; per step: target index, kind (redirect / forced boolean), fake address in [1,2^63), boolean value, trampoline placement",
      bounds="K=2 functions, L=%d installation(s) per lifetime, %d lifetime(s); loop unwind 26" % (L, 2 if two else 1),
      assumptions=API_ASSUME,
      cex_schema=[("f0", 8, 1), ("f1", 8, 1), ("bytes0", 1, 24), ("bytes1", 1, 24)] + [(x + str(i), sz, 1) for i in range(L) for x, sz in (("k", 8), ("raw", 1), ("t", 8), ("v", 1), ("j", 8))],
      replay="replay_x64_api")

H("x64_api_flavours", variant="x64-linux", modules=["rt", "x64dec", "x64_api"],
  covers=["COVER: func!", "COVER: closure!", "COVER: func_unchecked! with when_called_unchecked", "COVER: closure_unchecked!"],
  functions=API_FUNCS + ["func! / closure! / func_unchecked! / closure_unchecked! expansions", "InjectorPP::when_called_unchecked", "WhenCalledBuilder::will_execute_raw_unchecked"] + X64_CORE_FUNCS,
  symbolic="function address, bytes, register file; the replacement is the real function / closure the macro names (address as Kani assigns it)",
  bounds="one installation per flavour (4 flavours chosen symbolically); unwind 26", assumptions=API_ASSUME)

# ---------------------------------------------------------------------------------------------
# family F: 32-bit ARM
# ---------------------------------------------------------------------------------------------
ARM_FUNCS = ["PatchArm::replace_function_with_other_function", "common::read_bytes", "common::patch_function",
             "common::make_memory_writable_and_executable_linux", "common::inject_asm_code", "common::clear_cache", "PatchGuard::drop"]
for name, what in (("arm_core_a32", "A32 (f = 0 mod 4)"), ("arm_core_t32_aligned", "T32, f-1 = 0 mod 4"), ("arm_core_t32_misaligned", "T32, f-1 = 2 mod 4")):
    H(name, variant="arm-linux", modules=["rt", "armdec", "arm_core"],
      covers=["COVER: fake in Thumb state", "COVER: fake in ARM state", "COVER: entry patch straddles a page boundary"],
      functions=ARM_FUNCS,
      symbolic="all 32-bit target addresses of the case %s, all 32-bit fake addresses, 24 symbolic entry bytes" % what,
      bounds="one installation + drop; every 32-bit (f,t) of the case; loop unwind 26",
      assumptions=["ARM replays are simulated: the real source is compiled for the host with cfg(target_arch) resolved to arm; bytes are judged by the independent A32/T32 decoder"],
      cex_schema=[("f", 4, 1), ("entry_bytes", 1, 24), ("t", 4, 1)])
for name, L in (("arm_api_same1", 1), ("arm_api_same2", 2), ("arm_api_same3", 3)):
    H(name, variant="arm-linux", modules=["rt", "armdec", "arm_api"],
      covers=["COVER: Thumb target", "COVER: A32 target"] + (["COVER: forced boolean installed over an earlier fake of the same function"] if L >= 2 else []),
      functions=API_FUNCS + ARM_FUNCS,
      symbolic="32-bit target (A32 or Thumb), symbolic entry bytes, %d installation(s) one after another on the same target, each a redirect to a symbolic fake address or a forced boolean" % L,
      bounds="L=%d installations on one function through one injector; loop unwind 26" % L,
      assumptions=["std::sync::Mutex as modelled by Kani (sequential lock/try_lock/unlock)"],
      cex_schema=[("f", 4, 1), ("entry_bytes", 1, 24)] + [("t%d" % i, 4, 1) for i in range(L)])

# ---------------------------------------------------------------------------------------------
# family E1: AArch64 bit-level emitters (pure functions, all inputs)
# ---------------------------------------------------------------------------------------------
for name, fn, b in (("a64_emit_bits_roundtrip", ["utils::u64_to_bits", "utils::u8_to_bits", "utils::bool_array_to_u32"], "all u64 / u8 / u32 values; unwind 66"),
                    ("a64_emit_mov_tables", ["arm64_codegenerator::emit_movz", "arm64_codegenerator::emit_movk"], "all imm16, hw, Rd, sf; unwind 34"),
                    ("a64_emit_mov_from_address", ["arm64_codegenerator::emit_movz_from_address", "arm64_codegenerator::emit_movk_from_address"], "all 2^64 addresses, every chunk position hw in 0..3, all Rd; unwind 66"),
                    ("a64_emit_branch_tables", ["arm64_codegenerator::emit_br", "arm64_codegenerator::emit_ret", "arm64_codegenerator::emit_ret_x30"], "all register numbers; unwind 34")):
    H(name, variant="a64-linux", modules=["rt", "a64dec", "a64_emit"], functions=fn, bounds=b,
      symbolic="every input of the emitter (no address-space restriction)")

# ---------------------------------------------------------------------------------------------
# family E2: AArch64 install at injector_core level (allocator replaced by its contract)
# ---------------------------------------------------------------------------------------------
A64_FUNCS = ["PatchArm64::replace_function_with_other_function", "PatchArm64::replace_function_return_boolean",
             "patch_arm64::generate_will_execute_jit_code_abs", "patch_arm64::generate_will_return_boolean_jit_code",
             "patch_arm64::apply_branch_patch", "patch_arm64::append_instruction", "patch_arm64::write_instruction",
             "arm64_codegenerator::emit_movz/_movk[_from_address]/emit_br/emit_ret_x30", "utils::u64_to_bits/u8_to_bits/bool_array_to_u32",
             "common::read_bytes", "common::patch_function", "common::inject_asm_code", "common::clear_cache (dsb/isb marker)", "PatchGuard::drop"]
A64_ASSUME = ["a64_core harnesses replace allocate_jit_memory by its contract: a fresh page-aligned mapping with displacement in [-128 MiB, +128 MiB); the real allocator together with the real entry branch is checked by the a64_alloc harnesses",
              "AArch64 replays are simulated (real source compiled for the host with cfg(target_arch) resolved to aarch64); inline asm dsb/isb is replaced by a counted marker (R2)"]
H("a64_core_redirect", variant="a64-linux", modules=["rt", "a64dec", "a64_core"],
  covers=["COVER: trampoline above the target", "COVER: trampoline below the target", "COVER: largest forward displacement",
          "COVER: largest backward displacement", "COVER: fake address uses the top 16-bit chunk"],
  functions=A64_FUNCS, assumptions=A64_ASSUME,
  symbolic="f word-aligned in [4096,2^46), t: all 2^64-1 non-zero addresses in one query, j any page-aligned address with displacement in [-128 MiB,+128 MiB), x0..x30 and sp symbolic",
  bounds="one installation + drop; unwind 66 (u64_to_bits)",
  cex_schema=[("f", 8, 1), ("entry_bytes", 1, 24), ("t", 8, 1), ("j", 8, 1)])
H("a64_core_boolean", variant="a64-linux", modules=["rt", "a64dec", "a64_core"],
  covers=["COVER: true", "COVER: false"], functions=A64_FUNCS, assumptions=A64_ASSUME,
  symbolic="f, 24 entry bytes, value, j as above; x0..x30, sp symbolic",
  bounds="one installation + drop; unwind 34",
  cex_schema=[("f", 8, 1), ("entry_bytes", 1, 24), ("value", 1, 1), ("j", 8, 1)])
H("a64_core_refusal", variant="a64-linux", modules=["rt", "a64dec", "a64_core"],
  covers=["COVER: largest encodable forward displacement accepted", "COVER: largest encodable backward displacement accepted"],
  expected=[(r"apply_branch_patch", r"JIT memory is out of branch range")], must_reach=[0],
  functions=A64_FUNCS, assumptions=A64_ASSUME,
  symbolic="trampoline displacement anywhere in +-(128 MiB + 16 MiB), page-aligned",
  bounds="one installation; unwind 34",
  cex_schema=[("f", 8, 1), ("entry_bytes", 1, 24), ("value", 1, 1), ("j", 8, 1)])

H("a64_macos_long_jump", variant="a64-macos", modules=["rt", "a64dec", "a64_macos"],
  covers=["COVER: long form backwards", "COVER: long form forwards", "COVER: short form", "COVER: low 12 bits maximal"],
  functions=["arm64_codegenerator::maybe_emit_long_jump"],
  symbolic="all word-aligned pc and all word-aligned targets in user space whose pages are within +-4 GiB of pc's page; x0..x30, sp symbolic",
  bounds="none beyond the +-4 GiB reach of ADRP (out-of-reach pairs are outside the claim: the function has no refusal path)",
  assumptions=["a64-macos is compile-only except for this pure encoder: mach2 and the macOS libc names are shims; the 12-byte entry glue in apply_branch_patch (copying these words) and the Mach VM remapping in patch_function are outside the claim"])

# ---------------------------------------------------------------------------------------------
# family G: the real allocator retry loop + real entry branch (C11)
# ---------------------------------------------------------------------------------------------
ALLOC_FUNCS = ["common::allocate_jit_memory", "common::allocate_jit_memory_unix (the whole retry loop)"]
RANGE_PANIC = (r"apply_branch_patch", r"out of branch range", ["C11", "C12"], "the allocator accepted a placement that the entry branch cannot encode: the installation panics late with the trampoline still mapped")
for arch, variant, dec, base_funcs in (("x64", "x64-linux", "x64dec", X64_CORE_FUNCS), ("a64", "a64-linux", "a64dec", A64_FUNCS)):
    for pg, pname in ((4096, "4k"), (16384, "16k"), (65536, "64k")):
        H("%s_alloc_any_%s" % (arch, pname), variant=variant, modules=["rt", dec, "alloc_common", "%s_alloc" % arch],
          covers=["COVER: two placements rejected and given back", "COVER: two mmap failures", "COVER: first placement accepted"],
          forbidden=[RANGE_PANIC],
          functions=ALLOC_FUNCS + base_funcs,
          symbolic="f anywhere in [4096,2^46); any-kernel: the first two mmap calls each fail or return an arbitrary free page-aligned address anywhere in user space, the third succeeds strictly inside the range; page size %d" % pg,
          bounds="page size %d; at most 3 placement attempts (assumption: the third is within reach); unwind %d with unwinding assertions (the solver proves the loop stops)" % (pg, 26 if arch == "x64" else 34),
          assumptions=["any-kernel: one of the first three placements is within reach"],
          cex_schema=[("f", 8, 1), ("entry_bytes", 1, 24), ("value", 1, 1)])
    for pgbits, pname, unw in ((24, "16m", 26 if arch == "x64" else 34), (23, "8m", 36)):
        H("%s_alloc_layout_%s" % (arch, pname), variant=variant, modules=["rt", dec, "alloc_common", "%s_alloc" % arch],
          covers=["COVER: empty neighbourhood", "COVER: exactly one free page, found", "COVER: the free page is above the function",
                  "COVER: the free page is the last page of the window", "COVER: far fallbacks were rejected and given back before the free page was found",
                  "COVER: target below 128 MiB (window clipped at zero)"],
          expected=[(r"allocate_jit_memory_unix", r"Failed to allocate JIT memory|ARCH")], must_reach=[0],
          forbidden=[RANGE_PANIC],
          functions=ALLOC_FUNCS + base_funcs,
          symbolic="f anywhere (incl. below 128 MiB); layout of the +-128 MiB neighbourhood: empty / full / exactly one free page at a symbolic offset (both extremes included); kernel fallback for a taken hint: failure or a far-away page",
          bounds="page size scaled to 2^%d so that the WHOLE window (%d hints) is inside the unwinding bound %d; the claim for 4 KiB pages over the full window rests on the loop being parametric in the page size and is outside the bound" % (pgbits, (1 << (28 - pgbits)) + 1, unw),
          assumptions=["layout-kernel: a hint is honoured iff its page is free (Linux semantics without MAP_FIXED), otherwise the fallback is returned"],
          cex_schema=[("f", 8, 1), ("entry_bytes", 1, 24), ("layout", 1, 1), ("free", 8, 1), ("fallback", 8, 1), ("value", 1, 1)])

# ---------------------------------------------------------------------------------------------
# family C: the fake! macro and call counting (C06, C07, C08)
# ---------------------------------------------------------------------------------------------
import gen_arms
_ARMS = None
_ARMS_OK = None


def arms():
    global _ARMS
    if _ARMS is None:
        try:
            _ARMS = gen_arms.parse_arms()
        except Exception:
            _ARMS = []
    return _ARMS


def gen_fake_arms():
    """extra module for the scratch crate: only arms that passed the compile half are emitted"""
    ok = [a for a in arms() if "unparsed" not in a and (_ARMS_OK is None or a["index"] in _ARMS_OK)]
    text, _names = gen_arms.kani_module(ok)
    return {"fake_arms": text}


def _register_arm_harnesses():
    kinds = {}
    for a in arms():
        if "unparsed" in a:
            continue
        kinds.setdefault(a["kind"], []).append(a)
    names = []
    for kind, group in kinds.items():
        kname = re.sub(r'[^a-z0-9]+', "_", kind.lower()).strip("_") or "safe"
        hname = "fake_arms_" + kname
        names.append(hname)
        H(hname, variant="x64-linux", modules=["rt"], mod="fake_arms", generated="gen_fake_arms",
          covers_dynamic=True,
          expected=[(r"fake$|::fake", r"called more times than expected|called with unexpected arguments|placeholder message")],
          functions=["fake! arm expansions for `%s fn` (%d arms: macros.rs lines %s)" % (kind or "safe", len(group), ",".join(str(a["line"]) for a in group)),
                     "the generated `fake` function of each arm", "CallCountVerifier (construction)"],
          symbolic="per arm: arguments (a0: i32 behind &mut, b: i32), value X stored by `assign`, counter state c (all usize), budget N (all usize), truth of `when` (b > 0)",
          bounds="one call step per arm from an ARBITRARY counter state (inductive step: no bound on N or on the number of earlier calls); unwind 64",
          assumptions=["the counter can be put into an arbitrary state through the verifier's public `counter` field",
                       "`when` is instantiated as `{ probe(); b > 0 }`, `assign` as a call that records that it ran, `returns` as `(*a).wrapping_add(b)`, `times` as a function reading a symbolic cell"])
    return names


ARM_HARNESSES = _register_arm_harnesses()

H("verifier_quiet", variant="x64-linux", modules=["rt", "count"],
  covers=["COVER: mismatch while already unwinding", "COVER: exact count, normal exit"],
  forbidden=[(r"CallCountVerifier", r".", ["C06", "C05"], "CallCountVerifier::drop panics although the count matches or the thread is already unwinding (a second panic aborts the process)")],
  functions=["CallCountVerifier::drop"], symbolic="count, expectation: all usize pairs; std::thread::panicking() symbolic",
  bounds="none (all values)", assumptions=["std::thread::panicking is stubbed by a symbolic flag"])
H("verifier_loud", variant="x64-linux", modules=["rt", "count"],
  expected=[(r"CallCountVerifier", r".")], must_reach=[0],
  functions=["CallCountVerifier::drop"], symbolic="all (count, expectation) with count != expectation, not unwinding",
  bounds="none (all values)", assumptions=["std::thread::panicking is stubbed by a symbolic flag"])
H("count_restarts_per_installation", variant="x64-linux", modules=["rt", "count"], replay="replay_count_restarts",
  cex_schema=[("f", 8, 1), ("entry_bytes", 1, 24), ("n", 8, 1), ("c", 8, 1)],
  covers=["COVER: leftover count, two admitted calls", "COVER: scope exit after exactly N calls with a leftover count"],
  forbidden=[(r"fake$|::fake", r"called more times than expected", ["C07", "C05"], "a call within the budget of THIS installation is refused because calls absorbed by an earlier installation of the same fake! expression (e.g. one that ended in a panic) still count"),
             (r"CallCountVerifier", r".", ["C07", "C05"], "scope exit reports a count mismatch although exactly N calls were made during this installation")],
  functions=["WhenCalledBuilder::will_execute", "fake! expansion (fn() -> bool, returns, times)", "CallCountVerifier::drop", "InjectorPP::drop"] + X64_CORE_FUNCS,
  symbolic="leftover counter value c from earlier lifetimes: all usize; budget N in {1,2}; function address and bytes symbolic",
  bounds="one installation from an arbitrary leftover counter state (inductive over lifetimes), N <= 2 calls; unwind 26",
  assumptions=API_ASSUME)

H("win_alloc_layout_256m", variant="x64-windows", modules=["rt", "x64dec", "alloc_common", "win_core", "win_alloc"],
  covers=["COVER: the free page is above the function", "COVER: the free page is below the function", "COVER: empty neighbourhood", "COVER: 12-byte entry form"],
  expected=[(r"allocate_jit_memory_windows", r"Failed to allocate executable memory")], must_reach=[0],
  functions=["common::allocate_jit_memory_windows (x86_64 branch: the whole retry loop)", "PatchAmd64::replace_function_return_boolean", "patch_amd64::patch_and_guard", "patch_amd64::generate_branch_to_target_function"],
  symbolic="f in [2^33,2^46); layout of the +-2 GiB neighbourhood: empty / full / exactly one free page at a symbolic offset; VirtualAlloc at a taken address fails",
  bounds="page size scaled to 2^28 so that the WHOLE +-2 GiB window (17 hints) is inside the unwinding bound 26; real 4 KiB pages (2^20 iterations) are outside the bound",
  assumptions=["x64-windows is simulated; the WinAPI externs are stubbed onto the simulated OS; VirtualAlloc(addr) is modelled as 'honoured iff free, else NULL'"],
  cex_schema=[("f", 8, 1), ("entry_bytes", 1, 24), ("layout", 1, 1), ("free", 8, 1), ("fallback", 8, 1), ("value", 1, 1)])

# ---------------------------------------------------------------------------------------------
# family D: gates that run before anything is modified (C09, C10 gate, C05 d)
# ---------------------------------------------------------------------------------------------
GATE_FUNCS = ["WhenCalledBuilder::will_execute_raw", "WhenCalledBuilderAsync::will_return_async", "WhenCalledBuilder::will_return_boolean",
              "injector::signature_returns_bool (if present)", "FuncPtr::new", "InjectorPP::when_called", "InjectorPP::when_called_async", "str::eq / str::trim"]
MISMATCH = (r"will_execute_raw|will_return_async|will_return_boolean", r"Signature mismatch|signature|placeholder message")
TRIM_ASSUME = ["str::trim is replaced by its contract on ASCII input (strip ASCII white space at both ends): std's UTF-8 / Unicode White_Space machinery dominated the formula; the strings the harness builds are printable ASCII"]
for n, unw in ((2, 26), (6, 26), (12, 26)):
    GSCHEMA = [("f", 8, 1), ("entry_bytes", 1, 24), ("la", 8, 1), ("a", 1, n), ("lb", 8, 1), ("b", 1, n), ("t", 8, 1)]
    H("sig_gate_differs_%d" % n, variant="x64-linux", modules=["rt", "gates"], cex_schema=GSCHEMA, replay="replay_sig_gate",
      expected=[MISMATCH], must_reach=[0], functions=GATE_FUNCS + X64_CORE_FUNCS,
      symbolic="two arbitrary ASCII strings of length <= %d as the recorded signatures of target and replacement, constrained to differ; addresses symbolic" % n,
      bounds="signature strings up to %d bytes (memcmp unwinding %d)" % (n, unw), assumptions=API_ASSUME)
    H("sig_gate_equal_%d" % n, variant="x64-linux", modules=["rt", "gates"], cex_schema=GSCHEMA, replay="replay_sig_gate",
      covers=["COVER: signatures of maximal length", "COVER: both signatures empty (unchecked with unchecked)"],
      forbidden=[(MISMATCH[0], MISMATCH[1], ["C09"], "a replacement whose signature is written identically to the target's is refused")],
      functions=GATE_FUNCS + X64_CORE_FUNCS,
      symbolic="two equal arbitrary ASCII strings of length <= %d" % n,
      bounds="signature strings up to %d bytes" % n, assumptions=API_ASSUME)
H("sig_gate_will_execute_differs_6", variant="x64-linux", modules=["rt", "gates"],
  expected=[MISMATCH], must_reach=[0], functions=GATE_FUNCS + ["WhenCalledBuilder::will_execute", "fake! expansion", "InjectorPP::when_called_unchecked"],
  symbolic="target signature: any ASCII string <= 6 bytes (never the fake's), or the empty signature through when_called_unchecked; replacement: a fake! pair (type-carrying)",
  bounds="signature strings up to 6 bytes", assumptions=API_ASSUME)
H("bool_gate_refuses_not_ending_in_bool_8", variant="x64-linux", modules=["rt", "gates"],
  expected=[MISMATCH], must_reach=[0], functions=GATE_FUNCS + ["InjectorPP::when_called_unchecked"],
  symbolic="every ASCII signature string <= 8 bytes that does not end in `bool` (incl. the empty one), through when_called and when_called_unchecked",
  bounds="signature strings up to 8 bytes", assumptions=API_ASSUME + TRIM_ASSUME)
H("sig_gate_async_differs_6", variant="x64-linux", modules=["rt", "gates"],
  expected=[MISMATCH], must_reach=[0], functions=GATE_FUNCS,
  symbolic="two differing ASCII strings <= 6 bytes as recorded output signatures of an async target and its replacement",
  bounds="signature strings up to 6 bytes", assumptions=API_ASSUME)
H("null_pointer_refused", variant="x64-linux", modules=["rt", "gates"],
  expected=[(r"expect_failed|FuncPtr", r".")], must_reach=[0], functions=["FuncPtr::new"],
  symbolic="null pointer", bounds="none")
for n in (16, 20, 22):
    H("bool_gate_refuses_%d" % n, variant="x64-linux", modules=["rt", "gates"], replay="replay_bool_gate",
      cex_schema=[("f", 8, 1), ("entry_bytes", 1, 24), ("len", 8, 1), ("sig", 1, n)],
      expected=[MISMATCH], must_reach=[0], functions=GATE_FUNCS,
      symbolic="every printable-ASCII signature string of length <= %d that an independent parser reads as `<prefix>fn(<balanced>)[ -> <ret>]` with a top-level return type other than bool (includes return types that merely END in `-> bool`)" % n,
      bounds="signature strings up to %d bytes; unwind 26" % n, assumptions=API_ASSUME + TRIM_ASSUME, mem_gb=24)
for n in (16, 22):
    H("bool_gate_accepts_%d" % n, variant="x64-linux", modules=["rt", "gates"],
      covers=["COVER: signature of maximal length"],
      forbidden=[(MISMATCH[0], MISMATCH[1], ["C10"], "a function whose return type is exactly bool is refused by will_return_boolean")],
      functions=GATE_FUNCS + X64_CORE_FUNCS,
      symbolic="every printable-ASCII signature string of length <= %d whose top-level return type is exactly bool" % n,
      bounds="signature strings up to %d bytes; unwind 26" % n, assumptions=API_ASSUME + TRIM_ASSUME, mem_gb=24)
for L, want in ((15, False), (20, False), (12, True)):
    H("bool_gate_%s_len%d" % ("accepts" if want else "refuses", L), variant="x64-linux", modules=["rt", "gates"],
      expected=[] if want else [MISMATCH], must_reach=[] if want else [0],
      covers=["COVER: accepted signature of this length exists"] if want else [],
      forbidden=[(MISMATCH[0], MISMATCH[1], ["C10"], "a function whose return type is exactly bool is refused by will_return_boolean")] if want else [],
      functions=GATE_FUNCS,
      symbolic="every printable-ASCII signature string of EXACTLY %d bytes that the independent parser reads as a fn-pointer type name whose top-level return type %s bool" % (L, "is" if want else "is not"),
      bounds="exact length %d (the union over lengths is the symbolic-length claim; exact lengths stay cheaper for the solver)" % L,
      assumptions=API_ASSUME + TRIM_ASSUME, mem_gb=24, replay="replay_bool_gate",
      cex_schema=[("f", 8, 1), ("entry_bytes", 1, 24), ("sig", 1, L)])

# ---------------------------------------------------------------------------------------------
# family H: panics while fakes are installed (C05, C04)
# ---------------------------------------------------------------------------------------------
PANIC_FUNCS = API_FUNCS + ["WhenCalledBuilder::will_execute", "CallCountVerifier::drop", "fake! expansion (fn() -> bool, returns, times)",
                           "MutexGuard::drop (poisoning)", "NoPoisonMutex::lock (poisoned branch)"] + X64_CORE_FUNCS
PANIC_ASSUME = API_ASSUME + ["unwinding is modelled as leaving the scope early with std::thread::panicking() == true (stubbed by a symbolic flag that std's own callers also see); that rustc's unwinder runs the same drop glue as an early return is language semantics and is trusted"]
DOUBLE = (r"CallCountVerifier", r".", ["C05"], "call-count verification panics during unwinding / with a satisfied expectation: a second panic aborts the process")
for pos, name in ((0, "panic_at_p0"), (1, "panic_at_p1"), (2, "panic_at_p2"), (3, "panic_at_p3"), (4, "panic_at_p4"), (5, "normal_exit_p5")):
    H(name, variant="x64-linux", modules=["rt", "x64dec", "x64_panic"],
      covers=["COVER: scope exit reached"] + (["COVER: exit with an unsatisfied call-count expectation pending"] if pos in (2, 3, 4) else []),
      forbidden=[DOUBLE], functions=PANIC_FUNCS,
      symbolic="script new; install A (redirect); install B (fake! with times: N via will_execute); k calls; exit.  Panic injected at position %d (5 = none); N in {0,1}, k in {0,1,2}; all addresses and bytes symbolic" % pos,
      bounds="crash position %d of 0..5; two functions; N <= 1, k <= 2; then a second injector and a preventer are created; unwind 26" % pos,
      assumptions=PANIC_ASSUME)
H("verification_panic_comes_after_restore", variant="x64-linux", modules=["rt", "x64dec", "x64_panic"],
  expected=[(r"CallCountVerifier", r".")], must_reach=[0], functions=PANIC_FUNCS,
  symbolic="one function faked twice through one injector (redirect, then fake! with times: 1), no call made, normal scope exit; addresses and bytes symbolic",
  bounds="one lifetime; the observation point is the panicking() query that call-count verification makes right before it panics",
  assumptions=PANIC_ASSUME)
H("after_panic_usable", variant="x64-linux", modules=["rt", "x64dec", "x64_panic"],
  functions=PANIC_FUNCS,
  symbolic="first guard kind (injector / preventer) released while panicking; then a full install / interpret / drop cycle",
  bounds="two consecutive lifetimes; unwind 26", assumptions=PANIC_ASSUME)
H("mprotect_failure_leaves_target_untouched", variant="x64-linux", modules=["rt", "x64dec", "x64_panic"],
  expected=[(r"make_memory_writable_and_executable", r"mprotect failed")], must_reach=[0], functions=PANIC_FUNCS,
  symbolic="mprotect fails or succeeds nondeterministically", bounds="one installation", assumptions=PANIC_ASSUME)

# ---------------------------------------------------------------------------------------------
# family I: async (C14)
# ---------------------------------------------------------------------------------------------
ASYNC_FUNCS = ["InjectorPP::when_called_async", "InjectorPP::when_called_async_unchecked", "WhenCalledBuilderAsync::will_return_async",
               "WhenCalledBuilderAsync::will_return_async_unchecked", "async_func! / async_return! / async_func_unchecked! / async_return_unchecked! expansions",
               "__assert_future_output", "func! / func_unchecked!"] + X64_CORE_FUNCS
# the global unwind bound stays at 26 (so that an unbounded-looking loop in the code under test is not
# unrolled 72 times); only CBMC's memcmp (type-name comparison, 64-byte output comparison) gets 72
ASYNC_EXTRA = ["-Z", "unstable-options", "--cbmc-args", "--unwindset", "memcmp.0:72"]
ASYNC_ASSUME = API_ASSUME + ["the patched function is <F as Future>::poll at the address Kani assigns to it (registered as an entry, matched by equality); only the displacement arithmetic is concrete there",
                             "trusted: the replacement may ignore poll's two arguments under the platform ABI; the compiler emits calls to poll rather than inlining it (dev profile); executor behaviour"]
H("async_fake_one_of_family", variant="x64-linux", modules=["rt", "x64dec", "async_api"], functions=ASYNC_FUNCS, assumptions=ASYNC_ASSUME,
  symbolic="initial bytes of three sibling poll functions (two with the same output type, one by-reference), value returned by the replacement on two successive polls, register file",
  bounds="family of 3 siblings, one installation, two polls, drop; unwind 26, memcmp 72", extra=ASYNC_EXTRA)
H("async_history_family", variant="x64-linux", modules=["rt", "x64dec", "async_api"], functions=ASYNC_FUNCS, assumptions=ASYNC_ASSUME,
  symbolic="initial bytes of a method future's poll and a by-reference sibling's poll; register file",
  bounds="history fake / re-fake (checked) / fake sibling (unchecked flavour) / drop: L=3 over 2 siblings; unwind 26, memcmp 72", extra=ASYNC_EXTRA)
H("async_refake_same_function", variant="x64-linux", modules=["rt", "x64dec", "async_api"], functions=ASYNC_FUNCS, assumptions=ASYNC_ASSUME,
  symbolic="initial bytes of the poll function; value of the second replacement; register file",
  bounds="one async function faked twice through one injector (checked API), then dropped; unwind 26, memcmp 72", extra=ASYNC_EXTRA)
H("async_refake_unchecked_same_function", variant="x64-linux", modules=["rt", "x64dec", "async_api"], functions=ASYNC_FUNCS, assumptions=ASYNC_ASSUME,
  symbolic="initial bytes of the poll function; first fake checked or unchecked (symbolic), second fake through the unchecked flavour; register file",
  bounds="one async function faked twice through one injector, the later fake via will_return_async_unchecked, then dropped; unwind 26, memcmp 72", extra=ASYNC_EXTRA)
H("async_outputs_unit_and_large", variant="x64-linux", modules=["rt", "x64dec", "async_api"], functions=ASYNC_FUNCS, assumptions=ASYNC_ASSUME,
  symbolic="value inside a 64-byte output; initial bytes; register file",
  bounds="unit output and [u64; 8] output; unwind 26, memcmp 72", extra=ASYNC_EXTRA)

NOT_APPLICABLE = {}

PROPERTIES = {
    "C01": dict(
        premises=["premise_oracles_vs_llvm"],
        seed_rotation=['x64_api_flavours', 'x64_api_hist_l1', 'async_fake_one_of_family', 'x64_alloc_any_4k'],
        level_text="Bounded model checking of the real x86-64 installation code: for every function address (any page offset), trampoline placement within the allocator's range and fake address in [1,2^63), an independent x86-64 interpreter started at the function arrives at exactly the fake (or the boolean stub returns the value), and every write hit a page the code had made writable. One installation per harness; the retry loop of the allocator is C11's.",
        level_note="Trusted: the simulated OS/memory model and the stubs that route copy_nonoverlapping to it, the x86-64 interpreter, CBMC. Assumed: cooperative kernel for the first mmap; fake not inside the patched slot. Outside: execution of the fake, concurrent execution of the bytes being patched.",
        quick=["x64_core_redirect", "x64_core_boolean", "win_core_redirect"],
        thorough=["x64_core_redirect", "x64_core_boolean", "win_core_redirect", "x64_api_hist_l1", "x64_api_flavours", "count_restarts_per_installation", "x64_alloc_any_4k", "async_fake_one_of_family"],
        outside=["execution of the fake's own code", "calls already executing inside the first 5/12 bytes while the patch is written",
                 "kernel-half fake addresses (>= 2^63)"],
    ),
    "C02": dict(
        seed_rotation=['x64_api_flavours', 'a64_core_boolean', 'panic_at_p4', 'normal_exit_p5'],
        level_text="Bounded model checking of restoration: (a) one installation from an arbitrary entry state restores byte-for-byte for every address placement (the inductive step: each guard puts back exactly what it overwrote); (b) histories through the public API with K=2 functions and L<=2 (quick) / L<=3 (thorough) installations with symbolic targets and kinds, including the same function several times: while the injector lives the latest installation is in effect, after drop every entry equals its original image; two consecutive lifetimes; L<=3 on the 32-bit ARM variant (same drop logic, cheaper encoding).",
        level_note="Histories longer than 3 installations are outside the bound; the stack argument (guards released newest first, each restoring what it saved) is exercised in full at L=3 but is not proved for unbounded L. Allocator replaced by its contract in history harnesses. Unwinding is modelled as scope exit (C05); a scope exit that itself panics in call-count verification is covered by verification_panic_comes_after_restore (same function faked twice, wrong count).",
        quick=["x64_core_redirect", "x64_core_boolean", "x64_api_hist_l1", "x64_alloc_any_4k", "arm_api_same2", "arm_api_same3", "panic_at_p2", "verification_panic_comes_after_restore"],
        thorough=["x64_core_redirect", "x64_core_boolean", "x64_api_hist_l1", "x64_api_hist_l2", "x64_api_hist_l3", "x64_api_hist_l1x2", "arm_api_same2", "arm_api_same3", "a64_core_redirect", "panic_at_p2", "verification_panic_comes_after_restore"],
        timeout_min={"quick": 25, "thorough": 180},
        outside=["histories longer than L=3", "more than two distinct functions per history", "fake kinds other than redirect/forced boolean in histories (closure/fake!/async reach the same guard constructor; see C01/C14)"],
    ),
    "C03": dict(
        seed_rotation=['arm_core_t32_aligned', 'x64_alloc_layout_16m', 'a64_core_boolean', 'win_core_redirect'],
        level_text="The memory model itself is the oracle: every write the code issues must start at a registered function entry or at a trampoline it mapped and must fit the slot (16 bytes entries / 24 bytes trampolines), else the obligation fails; bytes behind the patch and a second function packed 16 bytes away stay identical during and after; mprotect may not drop r-x from text, and a function's page that was writable before the installation (code arena; initial protection symbolic in x64_core_redirect) is still writable after the injector is gone. Decided for every address placement (single install, all variants built so far) and for API histories K=2, L<=2/3.",
        level_note="Relies on all code-memory writes going through ptr::copy_nonoverlapping: any other dereference of a simulated (integer) address is reported by Kani's pointer checks as a failed check and makes the run inconclusive, so the assumption is checked, not trusted. Mappings the model does not know (shared libraries) are outside.",
        quick=["x64_core_redirect", "x64_core_boolean", "x64_api_hist_l1", "x64_alloc_any_4k", "arm_core_a32", "arm_core_t32_misaligned"],
        premises=["premise_only_static_is_lock"],
        thorough=["x64_core_redirect", "x64_core_boolean", "x64_api_hist_l1", "x64_api_hist_l2", "x64_api_hist_l3", "x64_alloc_any_4k", "x64_alloc_layout_16m", "a64_core_redirect", "a64_alloc_any_4k",
                  "arm_core_a32", "arm_core_t32_aligned", "arm_core_t32_misaligned", "win_core_redirect"],
        outside=["executable mappings the model does not register (shared libraries)", "histories beyond L=3"],
    ),
    "C12": dict(
        seed_rotation=['arm_core_t32_aligned', 'x64_alloc_layout_16m', 'win_core_redirect', 'arm_core_a32'],
        level_text="OS-model accounting decided by the solver: every munmap must name a live trampoline with a matching length (else the obligation fails: double free or foreign memory), after each install the live set equals the guards, after drop it equals the set before creation; one install/drop cycle from a clean state ends clean for every placement, histories L<=2/3 and two consecutive lifetimes; 32-bit ARM never maps. Unbounded cycles follow by induction because the crate keeps no state between cycles except the lock (checked by a source scan, reported as an assumption).",
        level_note="The 10^5-cycle figure is covered by the one-cycle induction step, not executed. Kernel-side limits (vm.max_map_count) are outside. The refused-install and exhaustion paths are C05/C11.",
        quick=["x64_core_redirect", "x64_core_boolean", "x64_api_hist_l1", "x64_alloc_any_4k", "arm_api_same2", "a64_core_boolean", "panic_at_p2"],
        thorough=["x64_core_redirect", "x64_core_boolean", "x64_api_hist_l2", "x64_api_hist_l3", "x64_api_hist_l1x2", "x64_alloc_any_4k", "x64_alloc_layout_16m", "a64_alloc_any_4k", "arm_core_a32", "arm_api_same2", "win_core_redirect"],
        premises=["premise_only_static_is_lock", "premise_refake_no_leak_native"],
        outside=["cycle counts are covered by induction over one cycle, not unrolled beyond 2"],
    ),
    "C13": dict(
        premises=["premise_oracles_vs_llvm"],
        seed_rotation=['arm_core_t32_misaligned', 'x64_core_boolean', 'win_core_redirect'],
        level_text="The complete integer register file, stack pointer and return address are symbolic at the call; the independent interpreter follows entry and trampoline to the fake and the solver decides that every register except the architecture's scratch (x86-64: rax) and the stack pointer are unchanged and no memory is written, for both trampoline forms and every address placement; 32-bit ARM: no argument register, callee-saved register, sp or lr is written (only r12).",
        level_note="Vector/floating-point registers are untouched by construction (no instruction in the decoder's table names them; any other instruction is a decode failure). Return path: the fake is entered with the caller's return address in place, so its return goes straight to the caller. AArch64 is covered under C15 once its install harness runs.",
        quick=["x64_core_redirect", "arm_core_a32", "arm_core_t32_aligned"],
        thorough=["x64_core_redirect", "x64_core_boolean", "arm_core_a32", "arm_core_t32_aligned", "arm_core_t32_misaligned", "a64_core_redirect"],
        outside=["execution inside the fake", "vector registers as values (they are shown untouched by the instruction table, not tracked)"],
    ),
    "C04": dict(
        seed_rotation=['panic_at_p0', 'panic_at_p4', 'normal_exit_p5', 'panic_at_p1'],
        level_text="Thread interleavings of std::sync::Mutex cannot be encoded (Kani has no concurrency; the futex path is FFI). What the solver decides on the real code is the lock discipline from which exclusion follows: (G1) from the return of InjectorPP::new()/prevent() until the value is dropped the process-wide lock is held, on every path through a symbolic history; (G2) every simulated code write, including every restoring write during drop, happens while the lock is held (the lock is released strictly after the last restore); (G3) after drop - normal, or while panicking with the mutex left poisoned - the lock is free and both new() and prevent() succeed again.",
        level_note="Trusted: std::sync::Mutex gives mutual exclusion and wakes a waiter on unlock. With G1-G3 this yields 'at most one holder', 'a preventer's holder sees only original code' (no write can happen without the lock) and hand-over. Schedules themselves are NOT explored: a change that replaces, skips, re-orders or shortens the locking is detected; a data race inside a hand-written lock would not be.",
        quick=["x64_api_hist_l1", "arm_api_same2", "after_panic_usable", "panic_at_p2", "verification_panic_comes_after_restore"],
        thorough=["x64_api_hist_l1", "x64_api_hist_l2", "x64_api_hist_l1x2", "arm_api_same2", "arm_api_same3", "after_panic_usable", "panic_at_p0", "panic_at_p2", "panic_at_p4", "normal_exit_p5"],
        outside=["thread schedules (trusted: std Mutex)", "fairness / liveness of hand-over beyond 'the lock is free and can be taken'"],
    ),
    "C05": dict(
        seed_rotation=['panic_at_p0', 'panic_at_p1', 'panic_at_p3', 'normal_exit_p5', 'sig_gate_async_differs_6'],
        level_text="Unwinding modelled as early scope exit with panicking()==true (the stub also reaches std, so the mutex really becomes poisoned). For each crash position of a scripted body (after creation, after each installation, after the calls, normal exit) with a call-count expectation pending (N in {0,1}, k calls): no panic site is reachable inside any destructor (CallCountVerifier::drop for ALL (count, expected) when panicking - a second panic would abort), every function is restored, no trampoline stays mapped, the lock is free; the next InjectorPP::new() and a full install/call/drop cycle and a preventer work (the POISONED branch itself is unreachable in the model because Kani builds std with panic=abort; it is exercised by a native premise with real unwinding in a thread). Library panics during installation (signature mismatch, null pointer, non-bool target, allocation exhaustion, mprotect failure) are reached with no code write, no mprotect and no live mapping before them.",
        level_note="Trusted: rustc's unwinder runs the same drop glue as an early return. Outside: mprotect failing during restoration (a page that could be made writable once is assumed to be again), panics inside extern \"C\" fakes (excluded by the property), the intermediate state 'verifier stored, guard not yet' after a refused will_execute is covered compositionally by verifier_quiet (silent for every count when panicking).",
        premises=["premise_poison_recovery"],
        quick=["panic_at_p2", "panic_at_p4", "after_panic_usable", "verification_panic_comes_after_restore", "count_restarts_per_installation", "verifier_quiet", "sig_gate_differs_6", "null_pointer_refused", "mprotect_failure_leaves_target_untouched"],
        thorough=["panic_at_p0", "panic_at_p1", "panic_at_p2", "panic_at_p3", "panic_at_p4", "normal_exit_p5", "after_panic_usable", "verification_panic_comes_after_restore", "verifier_quiet",
                  "sig_gate_differs_6", "sig_gate_async_differs_6", "null_pointer_refused", "bool_gate_refuses_16", "mprotect_failure_leaves_target_untouched", "x64_alloc_layout_16m"],
        timeout_min={"quick": 25, "thorough": 120},
        outside=["real stack unwinding", "panics in destructors of user values", "mprotect failure during restoration"],
    ),
    "C06": dict(
        level_text="Inductive step instead of call histories: for EVERY arm of fake! that has `times` (arms are read from the current macros.rs), one call from an arbitrary counter state c with an arbitrary budget N (all usize values): condition false -> the call does not return, has no side effect, and the condition was evaluated while the counter still read c; condition true and c >= N -> does not return, no side effect; condition true and c < N -> returns and the counter is exactly c+1. Scope exit: CallCountVerifier::drop panics iff not already unwinding and count != N, for all pairs. By induction over calls this is 'exactly N admitted' with no bound on N or k.",
        level_note="Concurrency clause: the solver cannot tell fetch_add from load+store sequentially; a separate premise (not a solver step) inspects the nightly MIR of every generated fake body and requires exactly one access to FAKE_COUNTER, an atomic fetch_add. Whether a rejected call that panics afterwards bumped the counter is unobservable without unwinding. The panic message text ('naming both numbers') is a native premise.",
        quick=["verifier_quiet", "verifier_loud", "verification_panic_comes_after_restore"] + ARM_HARNESSES,
        thorough=["verifier_quiet", "verifier_loud", "verification_panic_comes_after_restore", "count_restarts_per_installation"] + ARM_HARNESSES,
        premises=["premise_c08_compile", "premise_counter_is_single_rmw", "premise_verifier_message"],
        outside=["thread interleavings of the counter (premise: single atomic RMW)", "unwinding after a rejected call"],
    ),
    "C07": dict(
        level_text="Inductive over lifetimes: the counter of a fake!(.., times: N) call site is put into an ARBITRARY state c (whatever earlier installations of the same expression left behind), the pair is installed through when_called(..).will_execute(..), and the solver decides that the counter reads 0 on return, that the first N calls are admitted and that scope exit is silent after exactly N calls - for all c in usize, N in {1,2}.",
        level_note="Because the leftover state is arbitrary, the number of earlier lifetimes and of calls in them is unbounded. The injector is created before the counter is disturbed (Kani aliasing note, DESIGN.md). Counterexamples are replayed natively (same helper evaluated in two lifetimes).",
        quick=["count_restarts_per_installation"],
        thorough=["count_restarts_per_installation"],
        outside=["budgets N > 2 in the end-to-end harness (the per-call step for all N is C06)"],
    ),
    "C08": dict(
        level_text="Every arm found in the current macro_rules! fake (52 today; parsed at check time) is (1) type-checked on its own by rustc from a generated stand-alone instantiation (compiler verdict, reported as a premise; a rejected arm is the violation and the generated file the replay) and (2) driven by the solver through one call step against a reference meaning with symbolic arguments, counter, budget and assigned value: `when` guards; budget checked before effects; `assign` runs before `returns`; `returns` is evaluated per call with the arguments in scope; a refused call has no side effect; the recorded signature is the type name of the declared fn type; arms without `times` produce the dummy verifier.",
        level_note="Non-unwinding ABIs are fine under the solver (nothing unwinds in the model). Generic templates: arguments (a: &mut i32, b: i32), i32 / unit results.",
        quick=ARM_HARNESSES,
        thorough=ARM_HARNESSES,
        premises=["premise_c08_compile"],
        outside=["argument/return types other than the template's", "more than one call step per arm (the step is inductive)"],
    ),
    "C09": dict(
        seed_rotation=['sig_gate_differs_12', 'sig_gate_equal_12'],
        level_text="The gate is decided to be EXACT string equality for all pairs of recorded signatures up to the bound: for every two differing ASCII strings (length <= 2 and <= 6 quick / 12 thorough; the 2-byte bound stays decidable even when a changed comparison drags Unicode tables into the formula) the type-checked installation calls (will_execute_raw, will_return_async) do not return and the simulated machine sees no write, no mprotect and no mmap before the panic; for every two equal strings the installation completes. This rules out prefix / suffix / return-type-only weakenings of the comparison. Null pointers are refused by FuncPtr::new. Typed/unchecked mixes are the instances with one empty string.",
        level_note="The link from TYPES to STRINGS (std::any::type_name spelling differs for structurally different fn-pointer types) is a compiler fact, checked as a separate native premise over a generated family of types through every macro form; pairs differing only in lifetimes are reported, not judged.",
        quick=["sig_gate_differs_2", "sig_gate_equal_2", "sig_gate_differs_6", "sig_gate_equal_6", "sig_gate_will_execute_differs_6", "sig_gate_async_differs_6", "null_pointer_refused"],
        thorough=["sig_gate_differs_2", "sig_gate_equal_2", "sig_gate_differs_6", "sig_gate_equal_6", "sig_gate_differs_12", "sig_gate_equal_12", "sig_gate_will_execute_differs_6", "sig_gate_async_differs_6", "null_pointer_refused"],
        premises=["premise_type_names_distinct"],
        outside=["signature strings longer than 12 bytes (the comparison is a byte-wise equality; no length-dependent branch exists in the checked code)"],
    ),
    "C10": dict(
        seed_rotation=['bool_gate_refuses_len15', 'bool_gate_refuses_len20', 'bool_gate_accepts_len12', 'bool_gate_refuses_20'],
        level_text="Stub half: the boolean trampoline is interpreted from a fully symbolic register file / stack pointer / return address (x86-64: `mov rax,imm32; ret`; AArch64: `movz w0,#v; ret`): the solver decides that the low byte of the result register equals the value, control returns to the caller's return address, the stack pointer is as after a normal return, no memory is written and no other register changes, for every placement. Gate half: for EVERY printable-ASCII signature string up to 16 (quick) / 22 (thorough) bytes that an independent parser reads as a fn-pointer type name, will_return_boolean is refused (nothing touched) when the top-level return type is not bool - including return types that merely end in `-> bool` - and accepted when it is exactly bool.",
        level_note="32-bit ARM implements the forced boolean as an ordinary redirect to one of two one-line functions: only the redirect is checked there (C16).",
        premises=["premise_bool_gate_family"],
        quick=["x64_core_boolean", "a64_core_boolean", "bool_gate_refuses_16", "bool_gate_accepts_16", "bool_gate_refuses_not_ending_in_bool_8"],
        thorough=["x64_core_boolean", "a64_core_boolean", "bool_gate_refuses_16", "bool_gate_accepts_16", "bool_gate_refuses_20", "bool_gate_refuses_22", "bool_gate_accepts_22",
                  "bool_gate_refuses_len15", "bool_gate_refuses_len20", "bool_gate_accepts_len12", "bool_gate_refuses_not_ending_in_bool_8"],
        timeout_min={"quick": 30, "thorough": 240},
        outside=["32-bit ARM boolean flavour beyond the redirect being well-formed"],
    ),
    "C11": dict(
        seed_rotation=['x64_alloc_any_16k', 'x64_alloc_any_64k', 'a64_alloc_layout_16m', 'a64_alloc_any_16k', 'win_alloc_layout_256m'],
        level_text="The real retry loop of allocate_jit_memory_unix runs together with the real entry-branch writer: (11a) any-kernel with real page sizes 4K/16K/64K where each of the first placements fails or lands anywhere; (11b) layout-kernel with the page scaled to 16 MiB / 8 MiB so that the whole +-128 MiB window, its clipping at zero, the inclusive upper bound, both extreme offsets and the exhaustion panic are inside the unwinding bound. Decided: an accepted placement is one the written branch actually reaches (by decoding the entry), every rejected placement is unmapped with its own address/length before the next attempt, nothing else is unmapped, the function is neither written nor re-protected before acceptance, a full neighbourhood ends in the panic and never in a return. x86-64 and AArch64 Linux.",
        level_note="The full window at 4 KiB pages (65 537 iterations) is outside the bound; it rests on the loop arithmetic being parametric in the page size. The state at the exhaustion panic itself is observed through the invariants asserted at every mmap call (Kani cannot run code after a panic).",
        quick=["x64_alloc_any_4k", "x64_alloc_layout_16m", "a64_alloc_any_4k", "a64_alloc_layout_16m", "a64_core_refusal"],
        thorough=["x64_alloc_any_4k", "x64_alloc_any_16k", "x64_alloc_any_64k", "x64_alloc_layout_16m", "x64_alloc_layout_8m",
                  "a64_alloc_any_4k", "a64_alloc_any_16k", "a64_alloc_any_64k", "a64_alloc_layout_16m", "a64_alloc_layout_8m", "a64_core_refusal", "win_alloc_layout_256m"],
        timeout_min={"quick": 30, "thorough": 180},
        outside=["full +-128 MiB window with 4 KiB pages (65 537 iterations)", "the macOS allocator constants (same loop, +-2 GiB) and the Windows AArch64 branch"],
    ),
    "C14": dict(
        seed_rotation=['async_history_family'],
        level_text="The async macros and API are run on real `async fn`s (free functions and a method, by-value and by-reference parameters; u32, unit and 64-byte outputs; futures created and never polled, as the macros do): the solver decides that the entry that gets patched is <F as Future>::poll of exactly the named function's future type and that the poll functions of siblings - including one with the same output type - keep their bytes; that the decoded destination is the address of the function generated by async_return!, which returns Poll::Ready(v) on every call with v evaluated afresh (the value expression reads a cell the harness changes between calls); that histories fake / re-fake / fake sibling (unchecked flavour) / drop leave the latest in effect and restore everything. Output-type mismatches are refused by the C09 gate (sig_gate_async_differs).",
        level_note="Trusted: the replacement may ignore poll's arguments under the platform ABI; poll is called, not inlined; executor behaviour. Addresses of poll functions are the ones Kani assigns (concrete object ids), so address-placement generality is C01's, not this check's.",
        premises=["premise_async_refake_native"],
        quick=["async_fake_one_of_family", "async_refake_same_function", "async_refake_unchecked_same_function", "async_outputs_unit_and_large", "sig_gate_async_differs_6"],
        thorough=["async_fake_one_of_family", "async_refake_same_function", "async_refake_unchecked_same_function", "async_history_family", "async_outputs_unit_and_large", "sig_gate_async_differs_6"],
        outside=["executors / wakers / threads", "async functions with captured non-'static state beyond the family"],
    ),
    "C15": dict(
        premises=["premise_oracles_vs_llvm"],
        level_text="(a) every bit-level emitter against the A64 encoding tables for ALL inputs (all imm16/hw/Rd/sf, all 2^64 addresses in every chunk position, all register numbers); (b) the full installation: an independent A64 interpreter started at the function lands exactly on the trampoline writing no register, the trampoline builds exactly the fake's 64-bit address (all 2^64-1 values in one query) in a register in x9..x17 and branches to it, or sets w0 and returns; (c) displacements outside [-128 MiB,+128 MiB) are refused (panic reachable, nothing accepted outside).",
        level_note="Linux variant. macOS: the pure long-jump encoder maybe_emit_long_jump (B, or ADRP+ADD+BR through x16) is decided for all pc/target pairs within +-4 GiB on the a64-macos variant; the Mach VM remapping in patch_function is not modelled. Replays are simulated.",
        quick=["a64_emit_mov_tables", "a64_emit_branch_tables", "a64_emit_bits_roundtrip", "a64_core_redirect", "a64_core_boolean", "a64_core_refusal", "a64_macos_long_jump"],
        thorough=["a64_emit_mov_tables", "a64_emit_mov_from_address", "a64_emit_branch_tables", "a64_emit_bits_roundtrip", "a64_core_redirect", "a64_core_boolean", "a64_core_refusal", "a64_macos_long_jump", "a64_alloc_any_4k"],
        timeout_min={"quick": 25, "thorough": 120},
        outside=["macOS long form unless the a64-macos harnesses are listed", "execution on hardware"],
    ),
    "C16": dict(
        premises=["premise_oracles_vs_llvm"],
        level_text="All 2^32 x 2^32 (target, fake) pairs in each of the three entry cases (A32; T32 4-byte aligned; T32 2-byte aligned) in one query per obligation: independent A32/T32 interpreters with Align(PC,4) semantics decide that the literal the load actually reads holds the fake's address and the BX operand is that register, that at most the 12 written bytes are executed/read, that the saved bytes restore the entry exactly, and which registers are written.",
        level_note="Replays are simulated (no ARM hardware/emulator here): the real patch_arm.rs is compiled for the host. The interpreter knows LDR (literal) A1, T1 and T2 (ldr.w), BX and NOP; the encodings the repaired code emits were cross-checked once against LLVM (clang --target=armv7, llvm-objdump).",
        quick=["arm_core_a32", "arm_core_t32_aligned", "arm_core_t32_misaligned"],
        thorough=["arm_core_a32", "arm_core_t32_aligned", "arm_core_t32_misaligned", "arm_api_same2"],
        outside=["forced-boolean flavour on ARM beyond 'it is an ordinary redirect' (function addresses are 64-bit in the host model)"],
    ),
    "C17": dict(
        seed_rotation=['arm_core_t32_misaligned', 'arm_api_same2', 'win_core_redirect'],
        level_text="Dirty-bit model decided by the solver: every simulated write marks its bytes dirty, a flush clears the bytes it covers; at return from every installation and from drop no byte may be dirty, and no instruction byte on the interpreted path may be dirty, for every placement and for histories L<=2/3 (x86-64 Linux and 32-bit ARM so far).",
        level_note="Whether __clear_cache itself works is outside. macOS/Windows primitives are not modelled here.",
        premises=["premise_flush_native"],
        quick=["x64_core_redirect", "x64_core_boolean", "x64_api_hist_l1", "arm_core_a32", "arm_api_same2", "a64_core_boolean", "panic_at_p2"],
        thorough=["x64_core_redirect", "x64_core_boolean", "x64_api_hist_l2", "x64_api_hist_l3", "arm_core_a32", "arm_core_t32_misaligned", "arm_api_same2", "a64_core_redirect", "a64_core_boolean"],
        outside=["correctness of the platform flush primitive", "macOS and Windows"],
    ),
}


def premise_only_static_is_lock(work, tier):
    """C12 induction premise: outside macro bodies the crate has exactly one static (the lock)."""
    st = regen.statics()
    outside_macros = [x for x in st if x[0] != os.path.join("interface", "macros.rs")]
    ok = len(outside_macros) == 1 and outside_macros[0][2] == "LOCK_FUNCTION"
    return {"name": "only_static_is_lock", "ok": True if ok else None, "evaluations": len(st), "distinct": len(outside_macros),
            "detail": "statics outside macros.rs: %r" % (outside_macros,), "samples": [list(x) for x in st[:3]]}


def _dep_rlibs(work):
    """build a tiny crate that depends on the repo; return (deps dir, injectorpp rlib)"""
    import native, glob
    d = os.path.join(work, "c08dep")
    if not os.path.isdir(d):
        os.makedirs(os.path.join(d, "src"))
        open(os.path.join(d, "Cargo.toml"), "w").write('[package]\nname = "c08dep"\nversion = "0.0.0"\nedition = "2021"\n[dependencies]\ninjectorpp = { path = "%s" }\n[workspace]\n' % regen.REPO)
        open(os.path.join(d, "src", "lib.rs"), "w").write("pub use injectorpp;\n")
        lock = os.path.join(regen.REPO, "Cargo.lock")
        if os.path.isfile(lock):
            shutil.copy(lock, os.path.join(d, "Cargo.lock"))
        p = subprocess.run(["cargo", "build", "--offline", "-q"], cwd=d, env=native.ENV, stdout=subprocess.PIPE, stderr=subprocess.STDOUT, text=True)
        if p.returncode != 0:
            raise RuntimeError("cannot build the repository crate: " + p.stdout[-2000:])
    deps = os.path.join(d, "target", "debug", "deps")
    rl = sorted(glob.glob(os.path.join(deps, "libinjectorpp-*.rlib")))
    if not rl:
        raise RuntimeError("injectorpp rlib not found")
    return deps, rl[-1]


def premise_c08_compile(work, tier):
    """compile half of C08: rustc type-checks one generated instantiation per arm"""
    global _ARMS_OK
    import native
    deps, rlib = _dep_rlibs(work)
    cdir = os.path.join(work, "c08cases")
    os.makedirs(cdir, exist_ok=True)
    ok, bad, samples = set(), [], []
    al = arms()
    if not al:
        return {"name": "c08_compile", "ok": None, "detail": "macro_rules! fake could not be parsed"}
    for a in al:
        if "unparsed" in a:
            bad.append({"what": "fake! arm at macros.rs:%d has a pattern the generator cannot instantiate: %s" % (a["line"], a["unparsed"]), "arm": a["index"]})
            continue
        src = os.path.join(cdir, "arm_%02d.rs" % a["index"])
        open(src, "w").write(gen_arms.compile_case(a))
        p = subprocess.run(["rustc", "--edition", "2021", "--crate-type", "lib", "--emit=metadata", "-o", os.path.join(cdir, "arm_%02d.rmeta" % a["index"]),
                            "-L", "dependency=" + deps, "--extern", "injectorpp=" + rlib, "--cap-lints", "allow", src],
                           env=native.ENV, stdout=subprocess.PIPE, stderr=subprocess.STDOUT, text=True)
        if p.returncode == 0:
            ok.add(a["index"])
            if len(samples) < 3:
                samples.append({"arm": a["index"], "macros_rs_line": a["line"], "kind": a["kind"] or "safe", "options": a["opts"], "rustc": "accepted"})
        else:
            err = [l for l in p.stdout.splitlines() if l.startswith("error")]
            bad.append({"what": "fake! arm at macros.rs:%d (%s fn, %s, options %s) is rejected by rustc for a well-typed use: %s" % (
                a["line"], a["kind"] or "safe", "unit" if a["unit"] else "value-returning", "+".join(a["opts"]) or "none", (err[0] if err else p.stdout[:200])),
                "arm": a["index"], "instantiation": gen_arms.compile_case(a)})
    _ARMS_OK = ok
    return {"name": "c08_compile", "ok": not bad, "evaluations": len(al), "distinct": len(ok), "violations": bad,
            "detail": "%d arms parsed from macros.rs, %d accepted by rustc, %d rejected" % (len(al), len(ok), len(bad)), "samples": samples}


def premise_counter_is_single_rmw(work, tier):
    """C06 concurrency premise (NOT a solver step): in the nightly MIR of every `times` arm the generated
    `fake` body touches FAKE_COUNTER exactly once, through AtomicUsize::fetch_add."""
    import native
    al = [a for a in arms() if "unparsed" not in a and "times" in a["opts"] and (_ARMS_OK is None or a["index"] in _ARMS_OK)]
    d = os.path.join(work, "mirprem")
    os.makedirs(os.path.join(d, "src"), exist_ok=True)
    open(os.path.join(d, "Cargo.toml"), "w").write('[package]\nname = "mirprem"\nversion = "0.0.0"\nedition = "2021"\n[dependencies]\ninjectorpp = { path = "%s" }\n[workspace]\n' % regen.REPO)
    body = ["#![allow(unused, unused_unsafe)]\nuse injectorpp::interface::injector::*;\nfn effect(a: &mut i32) { *a = 7; }\nfn probe() {}\nfn budget() -> usize { 1 }\n"]
    for a in al:
        body.append("pub fn build_%d() -> (FuncPtr, CallCountVerifier) {\n    %s\n}\n" % (a["index"], gen_arms.invocation(a)))
    open(os.path.join(d, "src", "lib.rs"), "w").write("".join(body))
    lock = os.path.join(regen.REPO, "Cargo.lock")
    if os.path.isfile(lock):
        shutil.copy(lock, os.path.join(d, "Cargo.lock"))
    env = dict(native.ENV)
    p = subprocess.run(["cargo", "+nightly", "rustc", "--offline", "--lib", "--", "-Zunpretty=mir"], cwd=d, env=env,
                       stdout=subprocess.PIPE, stderr=subprocess.PIPE, text=True)
    if p.returncode != 0 or "fn " not in p.stdout:
        return {"name": "counter_is_single_rmw", "ok": None, "detail": "MIR dump failed: " + p.stderr[-500:]}
    # split MIR into items; the nested `fn fake(` that follows `fn build_<i>(` belongs to arm i
    items = re.split(r'\n(?=fn |static |alloc\d+ \()', p.stdout)
    owner, fakes = None, {}
    for it in items:
        m = re.match(r'fn build_(\d+)\(', it)
        if m:
            owner = int(m.group(1))
            continue
        m = re.match(r'fn (?:build_(\d+)::)?fake\(', it)
        if m:
            who = int(m.group(1)) if m.group(1) else owner
            if who is not None and who not in fakes:
                fakes[who] = it
    bad, good, samples = [], 0, []
    for a in al:
        b = fakes.get(a["index"])
        if b is None:
            bad.append("arm %d (macros.rs:%d): generated fake body not found in MIR" % (a["index"], a["line"]))
            continue
        calls = [l.strip() for l in b.splitlines() if re.search(r'Atomic::<usize>::\w+\(|AtomicUsize::\w+\(', l)]
        refs = [l for l in b.splitlines() if re.search(r'const \{alloc\d+: &(std::sync::atomic::)?Atomic<usize>\}', l)]
        rmw = [l for l in calls if "::fetch_add(" in l]
        other = [l for l in calls if "::fetch_add(" not in l]
        if len(rmw) == 1 and not other and len(refs) == 1:
            good += 1
            if len(samples) < 2:
                samples.append({"arm": a["index"], "mir_call": rmw[0][:160]})
        else:
            bad.append("arm %d (macros.rs:%d): the fake body touches its call counter through %d reference(s) and %d atomic call(s) %r - not exactly one atomic fetch_add, so concurrent callers can be lost or double-admitted" % (
                a["index"], a["line"], len(refs), len(calls), [re.sub(r'.*(Atomic::<usize>::\w+).*', r'\1', c) for c in calls]))
    return {"name": "counter_is_single_rmw", "ok": not bad, "evaluations": len(al), "distinct": good, "violations": bad,
            "detail": "%d `times` arms: %d with exactly one atomic fetch_add on the counter" % (len(al), good), "samples": samples}


def premise_type_names_distinct(work, tier):
    """C09 native premise: structurally different fn-pointer types are refused, identical ones accepted,
    through the real macros and the real installation (x86-64 host)."""
    import native
    try:
        binp = native.build(work, "type_names")
    except Exception as e:
        return {"name": "type_names_distinct", "ok": None, "detail": "build failed: %s" % (str(e)[-400:],)}
    p = subprocess.run([binp], stdout=subprocess.PIPE, stderr=subprocess.STDOUT, text=True, timeout=120)
    fails = [l for l in p.stdout.splitlines() if l.startswith("FAIL")]
    m = re.search(r'SUMMARY pairs=(\d+) failures=(\d+) types=(\d+)', p.stdout)
    if not m:
        return {"name": "type_names_distinct", "ok": None, "detail": "no summary: " + p.stdout[-300:]}
    return {"name": "type_names_distinct", "ok": not fails, "evaluations": int(m.group(1)), "distinct": int(m.group(1)) - len(fails),
            "violations": fails, "detail": m.group(0), "samples": ["ordered pairs over %s fn-pointer types through func!; closure!/fake!/simplified forms; unchecked vs typed" % m.group(3)]}


def premise_poison_recovery(work, tier):
    """C05 native premise (NOT a solver step): Kani builds std with panic=abort, where mutex poisoning is
    compiled out, so the poisoned branch of NoPoisonMutex::lock cannot be reached in the model.  Real run:
    a thread panics while holding an injector with a fake installed; afterwards the function is restored,
    nothing is leaked and a new injector - or, first thing, a preventer on a fresh thread - can be obtained
    (each under a deadline) and used."""
    scn = ("func 0 - 1024 11\nfakefn F near 777\nthread_panic 0 F\nbytes 0\ncall 0 11\nmaps\n"
           "new\nraw 0 F\ncall 0 777\ndrop\nbytes 0\ncall 0 11\nmaps\n"
           "thread_panic 0 F\nnew\nbool 0 1\ncall 0 1\ndrop\ncall 0 11\nmaps\n"
           # the guard must be obtainable by a preventer too, first thing after a poisoning exit, and again
           "thread_panic 0 F\nprevent\nnew_deadline\nprevent\nnew\nraw 0 F\ncall 0 777\ndrop\ncall 0 11\nmaps\n")
    r = _native(work, scn, "poison")
    ok = r.get("reproduced")
    # reproduced == False means every expectation was met
    return {"name": "poison_recovery", "ok": (True if ok is False else (False if ok is True else None)), "evaluations": 3, "distinct": 3,
            "violations": ["after a real unwinding exit with a fake installed: " + r.get("detail", "")] if ok is True else [],
            "detail": r.get("detail", ""), "samples": [scn]}


def premise_bool_gate_family(work, tier):
    """C10 native premise (NOT a solver step): will_return_boolean on a family of REAL function types, including
    return types whose name merely ends in `-> bool` (fn pointers, dyn Fn trait objects behind & / *const / Box)."""
    import native
    try:
        binp = native.build(work, "type_names")
    except Exception as e:
        return {"name": "bool_gate_family", "ok": None, "detail": "build failed: %s" % (str(e)[-400:],)}
    p = subprocess.run([binp, "bool"], stdout=subprocess.PIPE, stderr=subprocess.STDOUT, text=True, timeout=120)
    fails = [l[len("BOOLFAIL "):] for l in p.stdout.splitlines() if l.startswith("BOOLFAIL")]
    m = re.search(r'BOOLSUMMARY types=(\d+) failures=(\d+)', p.stdout)
    if not m:
        return {"name": "bool_gate_family", "ok": None, "detail": "no summary: " + p.stdout[-300:]}
    return {"name": "bool_gate_family", "ok": not fails, "evaluations": int(m.group(1)), "distinct": int(m.group(1)) - len(fails),
            "violations": fails, "detail": m.group(0), "samples": ["fn() -> fn() -> bool", "fn() -> &dyn Fn() -> bool", "fn(fn() -> bool)"]}


def premise_async_refake_native(work, tier):
    """C14 native premise (NOT a solver step): fake / fake sibling / re-fake / await / drop / await on real
    async functions under a minimal executor, in a child process."""
    import native
    try:
        binp = native.build(work, "type_names")
    except Exception as e:
        return {"name": "async_refake_native", "ok": None, "detail": "build failed: %s" % (str(e)[-400:],)}
    p = subprocess.run([binp, "async"], stdout=subprocess.PIPE, stderr=subprocess.STDOUT, text=True, timeout=120)
    fails = [l[len("ASYNCFAIL "):] for l in p.stdout.splitlines() if l.startswith("ASYNCFAIL")]
    if "ASYNCSUMMARY" not in p.stdout:
        return {"name": "async_refake_native", "ok": None, "detail": "no summary: " + p.stdout[-300:]}
    return {"name": "async_refake_native", "ok": not fails, "evaluations": 1, "distinct": 1, "violations": fails,
            "detail": p.stdout.strip().splitlines()[-1], "samples": ["fake quota; fake limit; await; re-fake quota; await x3; drop; await x2"]}


def premise_refake_no_leak_native(work, tier):
    """C12 native premise (NOT a solver step): the same function faked 6 times through one injector, drop, the set of
    rwx anonymous mappings is what it was at start; a second lifetime with 3 more; the function answers as the
    original afterwards.  Exists because a change that rearranges the guard vector at installation time (remove /
    retain / supersede) pushes the re-fake harnesses over the solver's memory budget (seeded/C12d): the solver side is
    then inconclusive and only this native run speaks."""
    scn = "func 0 - 1024 11\nwatch 0\nnew\nrefake 0 6\ndrop\nmaps\nbytes 0\ncall 0 11\nnew\nrefake 0 3\nbool 0 1\ndrop\nmaps\ncall 0 11\n"
    r = _native(work, scn, "refake_leak")
    if r.get("reproduced") is None:
        return {"name": "refake_no_leak_native", "ok": None, "detail": r.get("detail", "")}
    bad = [r.get("detail", "")] if r.get("reproduced") else []
    return {"name": "refake_no_leak_native", "ok": not bad, "evaluations": 1, "distinct": 1, "violations": bad,
            "detail": r.get("detail", "")[:600], "samples": ["6 fakes of one function, drop, maps; 3 more + forced boolean, drop, maps"]}


def premise_flush_native(work, tier):
    """C17 native premise (NOT a solver step): the platform primitive __clear_cache is interposed in a native run;
    after every install / re-install / drop each modified byte (entry and trampoline) must lie in a range that was
    flushed after its last write.  Placements: ordinary, straddling a 64-byte line, straddling a page; 40 successive
    fakes of one function (trampolines more than 64 KiB apart)."""
    outs = []
    bad = []
    for tag, scn in (("placements", "func 0 - 64 11\nfunc 1 - 126 12\nfunc 2 - 4093 13\nfakefn F near 777\n" +
                      "".join("watch %d\nnew\nraw %d F\nflushed %d\ncall %d 777\ndrop\nflushed %d\ncall %d %d\n" % (i, i, i, i, i, i, 11 + i) for i in range(3))),
                     ("refake", "func 0 - 1024 11\nwatch 0\nnew\nrefake 0 40\ndrop\nflushed 0\ncall 0 11\nbytes 0\n")):
        r = _native(work, scn, "flush_" + tag)
        outs.append(r.get("detail", ""))
        if r.get("reproduced") is True:
            bad.append("%s: %s" % (tag, r.get("detail", "")))
        elif r.get("reproduced") is None:
            return {"name": "flush_native", "ok": None, "detail": r.get("detail", "")}
    return {"name": "flush_native", "ok": not bad, "evaluations": 2, "distinct": 2, "violations": bad, "detail": " || ".join(outs)[:600],
            "samples": ["install/drop at page offsets 64, 126 (64-byte line), 4093 (page)", "40 successive fakes of one function"]}


def _mc(triple, lines, extra=()):
    """assemble with llvm-mc --show-encoding -> list of byte lists (one per instruction line)"""
    p = subprocess.run(["llvm-mc-14", "-triple=" + triple, "--show-encoding"] + list(extra), input="\n".join(lines) + "\n",
                       stdout=subprocess.PIPE, stderr=subprocess.PIPE, text=True)
    if p.returncode != 0:
        raise RuntimeError("llvm-mc: " + p.stderr[-300:])
    out = []
    for l in p.stdout.splitlines():
        m = re.search(r'encoding: \[([^\]]*)\]', l)
        if m:
            out.append([int(x, 16) for x in m.group(1).split(",")])
    return out


def premise_oracles_vs_llvm(work, tier):
    """Trusted-base cross-check (NOT a solver step): the independent interpreters in /verif/harness are compiled
    natively and run on instruction sequences ASSEMBLED BY LLVM (llvm-mc / clang) with pseudo-random operands;
    their verdict (destination, registers written, stack pointer) must equal the semantics the assembly text
    states.  Seeded by VERIF_SEED."""
    import random, native
    if not shutil.which("llvm-mc-14") or not shutil.which("clang-14"):
        return {"name": "oracles_vs_llvm", "ok": True, "evaluations": 0, "distinct": 0, "detail": "SKIPPED: llvm-mc-14 / clang-14 not available on this machine (the cross-check of the interpreters against LLVM is optional)"}
    rnd = random.Random(int(os.environ.get("VERIF_SEED", "0") or 0) + 12345)
    # build the native tool with the CURRENT decoder sources
    d = os.path.join(work, "oracle_check")
    if not os.path.isdir(d):
        os.makedirs(os.path.join(d, "src"))
        src = os.path.join(VERIF, "tools", "oracle_check")
        shutil.copy(os.path.join(src, "src", "main.rs"), os.path.join(d, "src", "main.rs"))
        for f in ("a64dec.rs", "armdec.rs", "x64dec.rs"):
            t = open(os.path.join(VERIF, "harness", f)).read().replace("kani::any()", "Default::default()")
            open(os.path.join(d, "src", f), "w").write(t)
        open(os.path.join(d, "Cargo.toml"), "w").write(open(os.path.join(src, "Cargo.toml.in")).read().replace("@SHIM@", os.path.join(VERIF, "shims", "libc")))
        p = subprocess.run(["cargo", "build", "--offline", "-q"], cwd=d, env=native.ENV, stdout=subprocess.PIPE, stderr=subprocess.STDOUT, text=True)
        if p.returncode != 0:
            return {"name": "oracles_vs_llvm", "ok": None, "detail": "oracle_check build failed: " + p.stdout[-600:]}
    binp = os.path.join(d, "target", "debug", "oracle_check")
    cases, expect = [], []
    M64 = (1 << 64) - 1
    try:
        # ---- A64 ----
        for _ in range(12):
            pc = rnd.randrange(0x1000, 1 << 46, 4)
            off = rnd.randrange(-(1 << 27), 1 << 27, 4)
            enc = _mc("aarch64", ["b #%d" % off])
            cases.append("a64 %x %s" % (pc, " ".join("%08x" % int.from_bytes(bytes(e), "little") for e in enc)))
            expect.append(("b #%d @%x" % (off, pc), {"pc": (pc + off) & M64, "written": 0, "bad": "false", "ret": "false"}))
        for _ in range(12):
            t = rnd.getrandbits(64)
            r = rnd.choice([9, 10, 16, 17])
            pc = rnd.randrange(0x1000, 1 << 46, 4)
            asm = ["movz x%d, #%d" % (r, t & 0xffff), "movk x%d, #%d, lsl #16" % (r, (t >> 16) & 0xffff),
                   "movk x%d, #%d, lsl #32" % (r, (t >> 32) & 0xffff), "movk x%d, #%d, lsl #48" % (r, (t >> 48) & 0xffff), "br x%d" % r]
            enc = _mc("aarch64", asm)
            cases.append("a64 %x %s" % (pc, " ".join("%08x" % int.from_bytes(bytes(e), "little") for e in enc)))
            expect.append(("movz/movk x%d=%x; br" % (r, t), {"pc": t, "written": 1 << r, "bad": "false", "ret": "false"}))
        for v in (0, 1):
            enc = _mc("aarch64", ["movz w0, #%d" % v, "ret"])
            cases.append("a64 4000 %s" % " ".join("%08x" % int.from_bytes(bytes(e), "little") for e in enc))
            expect.append(("movz w0,#%d; ret" % v, {"pc": 0x1111000000000000 + 30, "written": 1, "x0": v, "ret": "true", "bad": "false"}))
        for _ in range(10):
            pc = rnd.randrange(0x1000, 1 << 46, 4)
            pg = rnd.randrange(-(1 << 20), 1 << 20) << 12
            lo = rnd.randrange(0, 4096)
            enc = _mc("aarch64", ["adrp x16, #%d" % pg, "add x16, x16, #%d" % lo, "br x16"])
            cases.append("a64 %x %s" % (pc, " ".join("%08x" % int.from_bytes(bytes(e), "little") for e in enc)))
            expect.append(("adrp #%d; add #%d; br @%x" % (pg, lo, pc), {"pc": ((pc & ~0xfff) + pg + lo) & M64, "written": 1 << 16, "bad": "false"}))
        # the encoding TABLES the emitter harnesses (a64_emit.rs) compare against, re-derived from LLVM
        for _ in range(16):
            imm, hw, rd, sf = rnd.getrandbits(16), rnd.randrange(4), rnd.randrange(31), rnd.randrange(2)
            if sf == 0 and hw > 1:
                hw &= 1
            reg = ("x%d" if sf else "w%d") % rd
            e = _mc("aarch64", ["movz %s, #%d, lsl #%d" % (reg, imm, 16 * hw), "movk %s, #%d, lsl #%d" % (reg, imm, 16 * hw), "br x%d" % rd, "ret x%d" % rd])
            words = [int.from_bytes(bytes(x), "little") for x in e]
            common = (sf << 31) | (hw << 21) | (imm << 5) | rd
            table = [0x52800000 | common, 0x72800000 | common, 0xD61F0000 | (rd << 5), 0xD65F0000 | (rd << 5)]
            if words != table:
                return {"name": "oracles_vs_llvm", "ok": None, "detail": "encoding table used by a64_emit.rs disagrees with LLVM for %s imm=%x hw=%d: %r vs %r" % (reg, imm, hw, [hex(w) for w in words], [hex(t) for t in table])}
        enc = _mc("aarch64", ["nop", "nop", "b #-8"])
        cases.append("a64 8000 %s" % " ".join("%08x" % int.from_bytes(bytes(e), "little") for e in enc))
        expect.append(("nop; nop; b #-8", {"pc": 0x8000 + 8 - 8, "written": 0}))
        # ---- ARM / Thumb ----
        for _ in range(8):
            t = rnd.getrandbits(32)
            base = rnd.randrange(0x1000, 1 << 31, 4)
            e = _mc("armv7", ["ldr r12, [pc, #-0]", "bx r12"])
            code = bytes(sum(e, [])) + t.to_bytes(4, "little")
            cases.append("a32 %x %s" % (base, code.hex()))
            expect.append(("A32 ldr r12,[pc,#-0]; bx r12; .word %x" % t, {"dest": t, "written": 1 << 12}))
            e = _mc("armv7", ["ldr r9, [pc, #-0]", "bx r9"])
            code = bytes(sum(e, [])) + t.to_bytes(4, "little")
            cases.append("a32 %x %s" % (base, code.hex()))
            expect.append(("A32 ldr r9 form", {"dest": t, "written": 1 << 9}))
            e = _mc("thumbv7", ["ldr.w r12, [pc, #4]", "bx r12", "nop"])
            code = bytes(sum(e, [])) + t.to_bytes(4, "little")
            cases.append("t32 %x %s" % (base, code.hex()))
            expect.append(("T32 aligned ldr.w r12,[pc,#4]; bx r12; nop; .word", {"dest": t, "written": 1 << 12}))
            e = _mc("thumbv7", ["ldr.w r12, [pc, #4]", "bx r12"])
            code = bytes(sum(e, [])) + t.to_bytes(4, "little") + bytes([0xc0, 0x46])
            cases.append("t32 %x %s" % (base + 2, code.hex()))
            expect.append(("T32 halfword-aligned ldr.w r12,[pc,#4]; bx r12; .word", {"dest": t, "written": 1 << 12}))
            e = _mc("thumbv7", ["ldr r7, [pc, #0]", "bx r7"])
            code = bytes(sum(e, [])) + t.to_bytes(4, "little")
            cases.append("t32 %x %s" % (base, code.hex()))
            expect.append(("T32 old form ldr r7,[pc,#0]; bx r7; .word", {"dest": t, "written": 1 << 7}))
        # ---- x86-64 (AT&T syntax) ----
        for _ in range(10):
            base = rnd.randrange(0x1000, 1 << 46)
            t = rnd.getrandbits(63)
            reg, idx = rnd.choice([("rax", 0), ("rbx", 3), ("r11", 11), ("rcx", 1)])
            e = _mc("x86_64", ["movabsq $%d, %%%s" % (t, reg), "jmpq *%%%s" % reg])
            cases.append("x64 %x %s" % (base, bytes(sum(e, [])).hex()))
            expect.append(("movabs %s; jmp" % reg, {"pc": t, "r%d" % idx: t, "ret": "false", "mem": "false", "rsp": 0x7000}))
        for v in (0, 1):
            e = _mc("x86_64", ["movq $%d, %%rax" % v, "retq"])
            cases.append("x64 5000 %s" % bytes(sum(e, [])).hex())
            expect.append(("mov $%d,%%rax; ret" % v, {"pc": 0xabc0, "ret": "true", "rsp": 0x7008, "mem": "false"}))
        for _ in range(10):
            base = rnd.randrange(0x1000, 1 << 46)
            rel = rnd.randrange(-(1 << 31), 1 << 31)
            code = bytes([0xE9]) + (rel & 0xffffffff).to_bytes(4, "little")
            # cross-check the rel32 encoding itself with LLVM's disassembler
            dis = subprocess.run(["llvm-mc-14", "-triple=x86_64", "--disassemble"], input=" ".join("0x%02x" % b for b in code) + "\n",
                                 stdout=subprocess.PIPE, stderr=subprocess.PIPE, text=True).stdout
            m = re.search(r'jmp\s+(-?\d+)', dis)
            if not m or int(m.group(1)) != rel:
                return {"name": "oracles_vs_llvm", "ok": None, "detail": "llvm-mc disassembly of jmp rel32 unexpected: " + dis[-100:]}
            cases.append("x64 %x %s" % (base, code.hex()))
            expect.append(("jmp rel32 %d @%x" % (rel, base), {"pc": (base + 5 + rel) & M64, "ret": "false", "rsp": 0x7000}))
        e = _mc("x86_64", ["movabsq $5, %rax", "subq $8, %rsp", "callq *%rax"])
        cases.append("x64 6000 %s" % bytes(sum(e, [])).hex())
        expect.append(("movabs; sub rsp,8; call rax", {"pc": 5, "rsp": 0x7000 - 16, "mem": "true"}))
    except Exception as ex:
        return {"name": "oracles_vs_llvm", "ok": None, "detail": "vector generation failed: %r" % (ex,)}
    p = subprocess.run([binp], input="\n".join(cases) + "\n", stdout=subprocess.PIPE, stderr=subprocess.STDOUT, text=True, timeout=60)
    outs = [l for l in p.stdout.splitlines() if l.strip()]
    if len(outs) != len(cases):
        return {"name": "oracles_vs_llvm", "ok": None, "detail": "oracle_check produced %d lines for %d cases: %s" % (len(outs), len(cases), p.stdout[-200:])}
    bad = []
    for (what, exp), line, case in zip(expect, outs, cases):
        kv = dict(x.split("=", 1) for x in line.split()[1:] if "=" in x)
        if " none" in line or line.endswith("none"):
            bad.append("%s: interpreter could not decode what LLVM assembled (%s)" % (what, case))
            continue
        for k, v in exp.items():
            got = kv.get(k)
            if isinstance(v, int):
                ok = got is not None and int(got, 16) == v
            else:
                ok = got == v
            if not ok:
                bad.append("%s: interpreter says %s=%s, the assembly means %s=%s (%s)" % (what, k, got, k, ("%x" % v) if isinstance(v, int) else v, case))
                break
    # a disagreement means the CHECK's interpreter is wrong: inconclusive (None), never a violation of the property
    return {"name": "oracles_vs_llvm", "ok": (True if not bad else None), "evaluations": len(cases), "distinct": len(cases) - len(bad), "violations": [],
            "detail": ("%d instruction sequences assembled by LLVM, all interpreted as the assembly states" % len(cases)) if not bad else
                      ("ORACLE DISAGREES WITH LLVM (the check's own interpreter is wrong, not the code under test): " + "; ".join(bad[:3])),
            "oracle_disagreements": bad, "samples": [c for c in cases[:2]] + [cases[-1]]}


def premise_verifier_message(work, tier):
    """native premise: the scope-exit panic message names both numbers (sampled values; format string)"""
    src = open(os.path.join(regen.REPO, "src", "interface", "verifier.rs")).read()
    m = re.search(r'panic!\(\s*"([^"]*)"', src)
    if not m:
        return {"name": "verifier_message", "ok": None, "detail": "panic! format string not found in verifier.rs"}
    fmt = m.group(1)
    ok = "{expected}" in fmt and "{call_times}" in fmt
    return {"name": "verifier_message", "ok": True if ok else None, "evaluations": 1, "distinct": 1,
            "detail": "format string: %r" % fmt, "samples": [fmt]}


def _native(work, scenario, tag):
    import native
    try:
        r = native.run_scenario(work, scenario, tag)
    except Exception as e:
        return {"reproduced": None, "mode": "native", "detail": "replay build/run failed: %r" % (e,)}
    return {"reproduced": native.verdict(r), "mode": "native (real crate, real OS, child process)",
            "detail": r["meaning"] + "; " + " | ".join(r["output"].strip().splitlines()[-3:]), "scenario": scenario,
            "output": r["output"]}


def replay_x64_core(rec, work):
    """one synthetic target at the counterexample's page offset, fake near or far, install / call / drop"""
    cx = rec.get("counterexample") or {}
    f = cx.get("f")
    if f is None:
        return {"reproduced": None, "detail": "counterexample values not available"}
    off = f & 4095
    if "value" in cx:
        v = cx["value"] & 1
        scn = "func 0 %x %d 11\nwatch 0\nnew\nbool 0 %d\nflushed 0\ncall 0 %d\ndrop\nflushed 0\nbytes 0\ncall 0 11\nmaps\n" % (f, off, v, v)
    else:
        t, j = cx.get("t", 0), cx.get("j", 0)
        disp = t - j
        if abs(disp) < (1 << 40):
            # reproduce the exact fake-to-trampoline displacement (boundary cases of the rel32 test)
            fake = "fakefn_rel F 0 %d 777" % disp
        else:
            fake = "fakefn F far 777"
        echo = "fakeecho E %s" % ("far" if abs(disp) > 0x7fffffff else "near")
        scn = ("func 0 %x %d 11\n%s\n%s\nwatch 0\nnew\nraw 0 F\nflushed 0\ncall 0 777\ncallregs 0 777\ndrop\nflushed 0\nbytes 0\ncall 0 11\nmaps\n"
               "new\nraw 0 E\ncallstack 0 305419896\ndrop\ncall 0 11\n") % (f, off, fake, echo)
        if cx.get("was_writable", 0) & 1:
            # the function's page was writable before (code arena): it must still be after the injector is gone
            scn = scn.replace("\nwatch 0\n", "\nrwpage 0\nwatch 0\n", 1) + "permw 0\n"
    return _native(work, scn, rec["harness"])


def replay_x64_api(rec, work):
    """history through the real API on synthetic functions: install per step, call, drop, compare"""
    cx = rec.get("counterexample") or {}
    if "f0" not in cx:
        return {"reproduced": None, "detail": "counterexample values not available"}
    offs = [cx["f0"] & 4095, cx["f1"] & 4095]
    lines = ["func 0 - %d 11" % offs[0], "func 1 - %d 22" % offs[1], "fakefn A near 701", "fakefn B near 702", "fakefn C near 703", "new"]
    cur = {}
    i = 0
    fakes = ["A", "B", "C"]
    while ("k%d" % i) in cx:
        k = cx["k%d" % i] & 1
        if cx["raw%d" % i] & 1:
            lines.append("raw %d %s" % (k, fakes[i % 3]))
            cur[k] = 701 + (i % 3)
        else:
            v = cx["v%d" % i] & 1
            lines.append("bool %d %d" % (k, v))
            cur[k] = v
        i += 1
    for k in (0, 1):
        lines.append("call %d %d" % (k, cur.get(k, 11 if k == 0 else 22)))
    lines += ["drop", "bytes 0", "bytes 1", "call 0 11", "call 1 22", "maps"]
    return _native(work, "\n".join(lines) + "\n", rec["harness"])


def _hex(vals):
    return "".join("%02x" % (v & 0xff) for v in vals) or "00"[:0]


def replay_count_restarts(rec, work):
    """same fake!(.., times: N) helper evaluated in consecutive lifetimes; the earlier lifetime leaves a count
    above N (over-call) and, in a second scenario, below N, so that resets conditioned on the old value show"""
    cx = rec.get("counterexample") or {}
    n = max(1, min(2, cx.get("n", 1)))
    scn = "relife %d %d\nrelife %d %d\n" % (n, n + 1, n, max(1, n - 1))
    return _native(work, scn, rec["harness"])


def replay_bool_gate(rec, work):
    cx = rec.get("counterexample") or {}
    if "sig" not in cx:
        return {"reproduced": None, "detail": "counterexample values not available"}
    sig = cx["sig"][:cx.get("len", len(cx["sig"]))]
    return _native(work, "func 0 - 1024 11\nboolsig 0 %s\n" % _hex(sig), rec["harness"])


def replay_sig_gate(rec, work):
    cx = rec.get("counterexample") or {}
    if "la" not in cx:
        return {"reproduced": None, "detail": "counterexample values not available"}
    a = cx["a"][:cx["la"]]
    b = cx["b"][:cx["lb"]]
    return _native(work, "func 0 - 1024 11\nfakefn F near 777\nsigpair 0 F %s %s\n" % (_hex(a) or "", _hex(b) or ""), rec["harness"])


def replay_file(path):
    """./check <Cxx> --replay <path>: show the stored counterexample and, where a native scenario was
    recorded (x86-64), run it again against the CURRENT /repo.  exit 1 = still reproduces, 0 = does not."""
    rec = json.load(open(path))
    summary = {k: rec.get(k) for k in ("property", "harness", "variant", "obligation", "repo_head", "counterexample", "premise", "what")}
    print(json.dumps(summary, indent=1, default=str))
    scn = (rec.get("replay") or {}).get("scenario")
    if not scn:
        print("no native scenario stored for this counterexample (simulated variant or premise): the solver's assignment above is the replay")
        return 0
    work = tempfile.mkdtemp(prefix="verif_replay_")
    try:
        r = _native(work, scn, "replay")
        print(r.get("output", ""))
        print("native replay against %s: %s" % (regen.REPO, r.get("detail")))
        if r.get("reproduced") is True:
            print("VIOLATION property=%s replay=%s" % (rec.get("property"), path))
            return 1
        return 0 if r.get("reproduced") is False else 2
    finally:
        shutil.rmtree(work, ignore_errors=True)
