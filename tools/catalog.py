"""Harness and property catalogue (what each harness encodes, bounds, expected panics, covers)."""
import os, re, json, subprocess, shutil, tempfile
import regen

VERIF = regen.VERIF

COMMON_ASSUMPTIONS = [
    "R1-R4 (DESIGN.md 1.1): the checked text is /repo/src with cfg(target_arch/target_os) keys resolved for the variant, asm! replaced by a barrier marker, and cfg(kani)-only read accessors appended; the diff is audited on every run",
    "Kani stubs: std::ptr::copy_nonoverlapping -> simulated memory for integer-valued addresses (< 2^47), real copies otherwise; <*mut u8>::add -> wrapping_add; the platform cache-flush primitive -> dirty-bit model",
    "libc shim: mmap/munmap/mprotect/sysconf answered by the simulated OS in /verif/shims/libc (kernel model named per harness)",
    "the CPU decodes instructions as the independent interpreter in /verif/harness/*dec.rs does (written from the architecture manuals)",
    "Kani models the dev profile (overflow checks on); CBMC/CaDiCaL are trusted",
]

X64_CORE_FUNCS = [
    "PatchAmd64::replace_function_with_other_function", "PatchAmd64::replace_function_return_boolean",
    "patch_amd64::generate_branch_to_target_function", "patch_amd64::generate_will_return_boolean_jit_code",
    "patch_amd64::patch_and_guard", "common::allocate_jit_memory", "common::allocate_jit_memory_unix",
    "common::read_bytes", "common::patch_function", "common::make_memory_writable_and_executable_linux",
    "common::inject_asm_code", "common::clear_cache", "PatchGuard::new", "PatchGuard::drop",
]

HARNESSES = {}


def H(name, **kw):
    kw.setdefault("modules", [])
    kw.setdefault("covers", [])
    kw.setdefault("expected", [])
    kw.setdefault("must_reach", [])
    HARNESSES[name] = kw


def fq(name):
    s = HARNESSES[name]
    return "verif::%s::%s" % (s.get("mod") or s["modules"][-1], name)


# ---------------------------------------------------------------------------------------------
# family A: x86-64, one installation at injector_core level
# ---------------------------------------------------------------------------------------------
H("x64_core_redirect", variant="x64-linux", modules=["rt", "x64dec", "x64_core"],
  covers=["COVER: rel32 trampoline form", "COVER: abs64 trampoline form",
          "COVER: entry patch straddles a page boundary", "COVER: target below 128 MiB",
          "COVER: trampoline above the target", "COVER: trampoline below the target"],
  functions=X64_CORE_FUNCS,
  symbolic="f in [4096,2^46) any page offset; 24 initial entry bytes; t in [1,2^63); trampoline j = any free page with |j-f| <= 128 MiB; full register file, rsp, return address",
  bounds="one installation + drop; loop unwind 26 (covers every loop in the path; unwinding assertions on); cooperative kernel (first mmap succeeds in range)",
  assumptions=["cooperative kernel: the first hinted mmap returns a free page within +-128 MiB of the target (retry loop is C11's)",
               "the fake's address is not inside the patched entry slot or the trampoline page"],
  cex_schema=[("f", 8, 1), ("entry_bytes", 1, 24), ("t", 8, 1), ("j", 8, 1)],
  replay="replay_x64_core")
H("x64_core_boolean", variant="x64-linux", modules=["rt", "x64dec", "x64_core"],
  covers=["COVER: true", "COVER: false"],
  functions=X64_CORE_FUNCS,
  symbolic="f, 24 entry bytes, value in {true,false}, j as above; full register file, rsp, return address",
  bounds="one installation + drop; loop unwind 26; cooperative kernel",
  cex_schema=[("f", 8, 1), ("entry_bytes", 1, 24), ("value", 1, 1), ("j", 8, 1)],
  replay="replay_x64_core")


# ---------------------------------------------------------------------------------------------
# family B: x86-64 Linux, histories through the public API
# ---------------------------------------------------------------------------------------------
API_FUNCS = ["InjectorPP::new", "InjectorPP::prevent", "InjectorPP::when_called", "WhenCalledBuilder::will_execute_raw",
             "WhenCalledBuilder::will_return_boolean", "FuncPtr::new", "NoPoisonMutex::lock", "InjectorPP::drop (drop glue: guards, verifiers, _lock)",
             "WhenCalled::will_execute_guard", "WhenCalled::will_return_boolean_guard"]
API_ASSUME = ["history harnesses replace allocate_jit_memory by its contract (a fresh mapping the entry branch can reach, via the cooperative mmap model); the real allocator runs in the *_core_* and C11 harnesses",
              "fake addresses are outside the patched entry slots and outside trampoline pages",
              "std::sync::Mutex as modelled by Kani (sequential lock/try_lock/unlock)"]
for name, L, two in (("x64_api_hist_l1", 1, False), ("x64_api_hist_l2", 2, False), ("x64_api_hist_l3", 3, False), ("x64_api_hist_l1x2", 1, True)):
    H(name, variant="x64-linux", modules=["rt", "x64dec", "x64_api"],
      covers=(["COVER: same function faked twice", "COVER: two functions faked"] if L >= 2 else []),
      functions=API_FUNCS + X64_CORE_FUNCS,
      symbolic="two function entries at arbitrary addresses (16-byte packing allowed) with symbolic contents; per step: target index, kind (redirect / forced boolean), fake address in [1,2^63), boolean value, trampoline placement",
      bounds="K=2 functions, L=%d installation(s) per lifetime, %d lifetime(s); loop unwind 26" % (L, 2 if two else 1),
      assumptions=API_ASSUME,
      cex_schema=[("f0", 8, 1), ("f1", 8, 1), ("bytes0", 1, 24), ("bytes1", 1, 24)] + [(x + str(i), sz, 1) for i in range(L) for x, sz in (("k", 8), ("raw", 1), ("t", 8), ("v", 1), ("j", 8))],
      replay="replay_x64_api")

# ---------------------------------------------------------------------------------------------
# family F: 32-bit ARM
# ---------------------------------------------------------------------------------------------
ARM_FUNCS = ["PatchArm::replace_function_with_other_function", "common::read_bytes", "common::patch_function",
             "common::make_memory_writable_and_executable_linux", "common::inject_asm_code", "common::clear_cache", "PatchGuard::drop"]
for name, what in (("arm_core_a32", "A32 (f = 0 mod 4)"), ("arm_core_t32_aligned", "T32, f-1 = 0 mod 4"), ("arm_core_t32_misaligned", "T32, f-1 = 2 mod 4")):
    H(name, variant="arm-linux", modules=["rt", "armdec", "arm_core"],
      covers=["COVER: fake in Thumb state", "COVER: fake in ARM state", "COVER: entry patch straddles a page boundary"],
      functions=ARM_FUNCS,
      symbolic="all 32-bit target addresses of the case %s, all 32-bit fake addresses, 24 symbolic entry bytes" % what,
      bounds="one installation + drop; every 32-bit (f,t) of the case; loop unwind 26",
      assumptions=["ARM replays are simulated: the real source is compiled for the host with cfg(target_arch) resolved to arm; bytes are judged by the independent A32/T32 decoder"],
      cex_schema=[("f", 4, 1), ("entry_bytes", 1, 24), ("t", 4, 1)])
for name, L in (("arm_api_same1", 1), ("arm_api_same2", 2), ("arm_api_same3", 3)):
    H(name, variant="arm-linux", modules=["rt", "armdec", "arm_api"],
      covers=["COVER: Thumb target", "COVER: A32 target"],
      functions=API_FUNCS + ARM_FUNCS,
      symbolic="32-bit target (A32 or Thumb), symbolic entry bytes, %d fake address(es) installed one after another on the same target" % L,
      bounds="L=%d installations on one function through one injector; loop unwind 26" % L,
      assumptions=["std::sync::Mutex as modelled by Kani (sequential lock/try_lock/unlock)"],
      cex_schema=[("f", 4, 1), ("entry_bytes", 1, 24)] + [("t%d" % i, 4, 1) for i in range(L)])

# ---------------------------------------------------------------------------------------------
# family E1: AArch64 bit-level emitters (pure functions, all inputs)
# ---------------------------------------------------------------------------------------------
for name, fn, b in (("a64_emit_bits_roundtrip", ["utils::u64_to_bits", "utils::u8_to_bits", "utils::bool_array_to_u32"], "all u64 / u8 / u32 values; unwind 66"),
                    ("a64_emit_mov_tables", ["arm64_codegenerator::emit_movz", "arm64_codegenerator::emit_movk"], "all imm16, hw, Rd, sf; unwind 34"),
                    ("a64_emit_mov_from_address", ["arm64_codegenerator::emit_movz_from_address", "arm64_codegenerator::emit_movk_from_address"], "all 2^64 addresses, every chunk position hw in 0..3, all Rd; unwind 66"),
                    ("a64_emit_branch_tables", ["arm64_codegenerator::emit_br", "arm64_codegenerator::emit_ret", "arm64_codegenerator::emit_ret_x30"], "all register numbers; unwind 34")):
    H(name, variant="a64-linux", modules=["rt", "a64dec", "a64_emit"], functions=fn, bounds=b,
      symbolic="every input of the emitter (no address-space restriction)")

# ---------------------------------------------------------------------------------------------
# family E2: AArch64 install at injector_core level (allocator replaced by its contract)
# ---------------------------------------------------------------------------------------------
A64_FUNCS = ["PatchArm64::replace_function_with_other_function", "PatchArm64::replace_function_return_boolean",
             "patch_arm64::generate_will_execute_jit_code_abs", "patch_arm64::generate_will_return_boolean_jit_code",
             "patch_arm64::apply_branch_patch", "patch_arm64::append_instruction", "patch_arm64::write_instruction",
             "arm64_codegenerator::emit_movz/_movk[_from_address]/emit_br/emit_ret_x30", "utils::u64_to_bits/u8_to_bits/bool_array_to_u32",
             "common::read_bytes", "common::patch_function", "common::inject_asm_code", "common::clear_cache (dsb/isb marker)", "PatchGuard::drop"]
A64_ASSUME = ["a64_core harnesses replace allocate_jit_memory by its contract: a fresh page-aligned mapping with displacement in [-128 MiB, +128 MiB); the real allocator together with the real entry branch is checked by the a64_alloc harnesses",
              "AArch64 replays are simulated (real source compiled for the host with cfg(target_arch) resolved to aarch64); inline asm dsb/isb is replaced by a counted marker (R2)"]
H("a64_core_redirect", variant="a64-linux", modules=["rt", "a64dec", "a64_core"],
  covers=["COVER: trampoline above the target", "COVER: trampoline below the target", "COVER: largest forward displacement",
          "COVER: largest backward displacement", "COVER: fake address uses the top 16-bit chunk"],
  functions=A64_FUNCS, assumptions=A64_ASSUME,
  symbolic="f word-aligned in [4096,2^46), t: all 2^64-1 non-zero addresses in one query, j any page-aligned address with displacement in [-128 MiB,+128 MiB), x0..x30 and sp symbolic",
  bounds="one installation + drop; unwind 66 (u64_to_bits)",
  cex_schema=[("f", 8, 1), ("entry_bytes", 1, 24), ("t", 8, 1), ("j", 8, 1)])
H("a64_core_boolean", variant="a64-linux", modules=["rt", "a64dec", "a64_core"],
  covers=["COVER: true", "COVER: false"], functions=A64_FUNCS, assumptions=A64_ASSUME,
  symbolic="f, 24 entry bytes, value, j as above; x0..x30, sp symbolic",
  bounds="one installation + drop; unwind 34",
  cex_schema=[("f", 8, 1), ("entry_bytes", 1, 24), ("value", 1, 1), ("j", 8, 1)])
H("a64_core_refusal", variant="a64-linux", modules=["rt", "a64dec", "a64_core"],
  covers=["COVER: largest encodable forward displacement accepted", "COVER: largest encodable backward displacement accepted"],
  expected=[(r"apply_branch_patch", r"JIT memory is out of branch range")], must_reach=[0],
  functions=A64_FUNCS, assumptions=A64_ASSUME,
  symbolic="trampoline displacement anywhere in +-(128 MiB + 16 MiB), page-aligned",
  bounds="one installation; unwind 34",
  cex_schema=[("f", 8, 1), ("entry_bytes", 1, 24), ("value", 1, 1), ("j", 8, 1)])

# ---------------------------------------------------------------------------------------------
# family G: the real allocator retry loop + real entry branch (C11)
# ---------------------------------------------------------------------------------------------
ALLOC_FUNCS = ["common::allocate_jit_memory", "common::allocate_jit_memory_unix (the whole retry loop)"]
for arch, variant, dec, base_funcs in (("x64", "x64-linux", "x64dec", X64_CORE_FUNCS), ("a64", "a64-linux", "a64dec", A64_FUNCS)):
    for pg, pname in ((4096, "4k"), (16384, "16k"), (65536, "64k")):
        H("%s_alloc_any_%s" % (arch, pname), variant=variant, modules=["rt", dec, "alloc_common", "%s_alloc" % arch],
          covers=["COVER: two placements rejected and given back", "COVER: two mmap failures", "COVER: first placement accepted"],
          functions=ALLOC_FUNCS + base_funcs,
          symbolic="f anywhere in [4096,2^46); any-kernel: the first two mmap calls each fail or return an arbitrary free page-aligned address anywhere in user space, the third succeeds strictly inside the range; page size %d" % pg,
          bounds="page size %d; at most 3 placement attempts (assumption: the third is within reach); unwind %d with unwinding assertions (the solver proves the loop stops)" % (pg, 26 if arch == "x64" else 34),
          assumptions=["any-kernel: one of the first three placements is within reach"],
          cex_schema=[("f", 8, 1), ("entry_bytes", 1, 24), ("value", 1, 1)])
    for pgbits, pname, unw in ((24, "16m", 26 if arch == "x64" else 34), (23, "8m", 36)):
        H("%s_alloc_layout_%s" % (arch, pname), variant=variant, modules=["rt", dec, "alloc_common", "%s_alloc" % arch],
          covers=["COVER: empty neighbourhood", "COVER: exactly one free page, found", "COVER: the free page is above the function",
                  "COVER: the free page is the last page of the window", "COVER: far fallbacks were rejected and given back before the free page was found",
                  "COVER: target below 128 MiB (window clipped at zero)"],
          expected=[(r"allocate_jit_memory_unix", r"Failed to allocate JIT memory|ARCH")], must_reach=[0],
          functions=ALLOC_FUNCS + base_funcs,
          symbolic="f anywhere (incl. below 128 MiB); layout of the +-128 MiB neighbourhood: empty / full / exactly one free page at a symbolic offset (both extremes included); kernel fallback for a taken hint: failure or a far-away page",
          bounds="page size scaled to 2^%d so that the WHOLE window (%d hints) is inside the unwinding bound %d; the claim for 4 KiB pages over the full window rests on the loop being parametric in the page size and is outside the bound" % (pgbits, (1 << (28 - pgbits)) + 1, unw),
          assumptions=["layout-kernel: a hint is honoured iff its page is free (Linux semantics without MAP_FIXED), otherwise the fallback is returned"],
          cex_schema=[("f", 8, 1), ("entry_bytes", 1, 24), ("layout", 1, 1), ("free", 8, 1), ("fallback", 8, 1), ("value", 1, 1)])

NOT_APPLICABLE = {}

PROPERTIES = {
    "C01": dict(
        level_text="Bounded model checking of the real x86-64 installation code: for every function address (any page offset), trampoline placement within the allocator's range and fake address in [1,2^63), an independent x86-64 interpreter started at the function arrives at exactly the fake (or the boolean stub returns the value), and every write hit a page the code had made writable. One installation per harness; the retry loop of the allocator is C11's.",
        level_note="Trusted: the simulated OS/memory model and the stubs that route copy_nonoverlapping to it, the x86-64 interpreter, CBMC. Assumed: cooperative kernel for the first mmap; fake not inside the patched slot. Outside: execution of the fake, concurrent execution of the bytes being patched.",
        quick=["x64_core_redirect", "x64_core_boolean"],
        thorough=["x64_core_redirect", "x64_core_boolean", "x64_api_hist_l1"],
        outside=["execution of the fake's own code", "calls already executing inside the first 5/12 bytes while the patch is written",
                 "kernel-half fake addresses (>= 2^63)"],
    ),
    "C02": dict(
        level_text="Bounded model checking of restoration: (a) one installation from an arbitrary entry state restores byte-for-byte for every address placement (the inductive step: each guard puts back exactly what it overwrote); (b) histories through the public API with K=2 functions and L<=2 (quick) / L<=3 (thorough) installations with symbolic targets and kinds, including the same function several times: while the injector lives the latest installation is in effect, after drop every entry equals its original image; two consecutive lifetimes; L<=3 on the 32-bit ARM variant (same drop logic, cheaper encoding).",
        level_note="Histories longer than 3 installations are outside the bound; the stack argument (guards released newest first, each restoring what it saved) is exercised in full at L=3 but is not proved for unbounded L. Allocator replaced by its contract in history harnesses. Unwinding is modelled as scope exit (C05).",
        quick=["x64_core_redirect", "x64_core_boolean", "x64_api_hist_l1", "arm_api_same2", "arm_api_same3"],
        thorough=["x64_core_redirect", "x64_core_boolean", "x64_api_hist_l1", "x64_api_hist_l2", "x64_api_hist_l3", "x64_api_hist_l1x2", "arm_api_same2", "arm_api_same3", "a64_core_redirect"],
        timeout_min={"quick": 25, "thorough": 180},
        outside=["histories longer than L=3", "more than two distinct functions per history", "fake kinds other than redirect/forced boolean in histories (closure/fake!/async reach the same guard constructor; see C01/C14)"],
    ),
    "C03": dict(
        level_text="The memory model itself is the oracle: every write the code issues must start at a registered function entry or at a trampoline it mapped and must fit the slot (16 bytes entries / 24 bytes trampolines), else the obligation fails; bytes behind the patch and a second function packed 16 bytes away stay identical during and after; mprotect may not drop r-x from text. Decided for every address placement (single install, all variants built so far) and for API histories K=2, L<=2/3.",
        level_note="Relies on all code-memory writes going through ptr::copy_nonoverlapping: any other dereference of a simulated (integer) address is reported by Kani's pointer checks as a failed check and makes the run inconclusive, so the assumption is checked, not trusted. Mappings the model does not know (shared libraries) are outside.",
        quick=["x64_core_redirect", "x64_core_boolean", "x64_api_hist_l1", "arm_core_a32", "arm_core_t32_misaligned"],
        thorough=["x64_core_redirect", "x64_core_boolean", "x64_api_hist_l1", "x64_api_hist_l2", "x64_api_hist_l3", "arm_core_a32", "arm_core_t32_aligned", "arm_core_t32_misaligned"],
        outside=["executable mappings the model does not register (shared libraries)", "histories beyond L=3"],
    ),
    "C12": dict(
        level_text="OS-model accounting decided by the solver: every munmap must name a live trampoline with a matching length (else the obligation fails: double free or foreign memory), after each install the live set equals the guards, after drop it equals the set before creation; one install/drop cycle from a clean state ends clean for every placement, histories L<=2/3 and two consecutive lifetimes; 32-bit ARM never maps. Unbounded cycles follow by induction because the crate keeps no state between cycles except the lock (checked by a source scan, reported as an assumption).",
        level_note="The 10^5-cycle figure is covered by the one-cycle induction step, not executed. Kernel-side limits (vm.max_map_count) are outside. The refused-install and exhaustion paths are C05/C11.",
        quick=["x64_core_redirect", "x64_core_boolean", "x64_api_hist_l1", "arm_api_same2", "a64_core_boolean"],
        thorough=["x64_core_redirect", "x64_core_boolean", "x64_api_hist_l2", "x64_api_hist_l3", "x64_api_hist_l1x2", "arm_core_a32", "arm_api_same2"],
        premises=["premise_only_static_is_lock"],
        outside=["cycle counts are covered by induction over one cycle, not unrolled beyond 2"],
    ),
    "C13": dict(
        level_text="The complete integer register file, stack pointer and return address are symbolic at the call; the independent interpreter follows entry and trampoline to the fake and the solver decides that every register except the architecture's scratch (x86-64: rax) and the stack pointer are unchanged and no memory is written, for both trampoline forms and every address placement; 32-bit ARM: no argument register, sp or lr is written and (known finding) the scratch register is callee-saved.",
        level_note="Vector/floating-point registers are untouched by construction (no instruction in the decoder's table names them; any other instruction is a decode failure). Return path: the fake is entered with the caller's return address in place, so its return goes straight to the caller. AArch64 is covered under C15 once its install harness runs.",
        quick=["x64_core_redirect", "arm_core_a32", "arm_core_t32_aligned"],
        thorough=["x64_core_redirect", "x64_core_boolean", "arm_core_a32", "arm_core_t32_aligned", "arm_core_t32_misaligned", "a64_core_redirect"],
        outside=["execution inside the fake", "vector registers as values (they are shown untouched by the instruction table, not tracked)"],
    ),
    "C10": dict(
        level_text="Stub half: the boolean trampoline is interpreted from a fully symbolic register file / stack pointer / return address (x86-64: `mov rax,imm32; ret`; AArch64: `movz w0,#v; ret`): the solver decides that the low byte of the result register equals the value, control returns to the caller's return address, the stack pointer is as after a normal return, no memory is written and no other register changes, for every placement. Gate half: see C10 gate harnesses (added with the signature-gate family).",
        level_note="32-bit ARM implements the forced boolean as an ordinary redirect to one of two one-line functions: only the redirect is checked there (C16).",
        quick=["x64_core_boolean", "a64_core_boolean"],
        thorough=["x64_core_boolean", "a64_core_boolean"],
        outside=["32-bit ARM boolean flavour beyond the redirect being well-formed"],
    ),
    "C11": dict(
        level_text="The real retry loop of allocate_jit_memory_unix runs together with the real entry-branch writer: (11a) any-kernel with real page sizes 4K/16K/64K where each of the first placements fails or lands anywhere; (11b) layout-kernel with the page scaled to 16 MiB / 8 MiB so that the whole +-128 MiB window, its clipping at zero, the inclusive upper bound, both extreme offsets and the exhaustion panic are inside the unwinding bound. Decided: an accepted placement is one the written branch actually reaches (by decoding the entry), every rejected placement is unmapped with its own address/length before the next attempt, nothing else is unmapped, the function is neither written nor re-protected before acceptance, a full neighbourhood ends in the panic and never in a return. x86-64 and AArch64 Linux.",
        level_note="The full window at 4 KiB pages (65 537 iterations) is outside the bound; it rests on the loop arithmetic being parametric in the page size. The state at the exhaustion panic itself is observed through the invariants asserted at every mmap call (Kani cannot run code after a panic).",
        quick=["x64_alloc_any_4k", "x64_alloc_layout_16m", "a64_alloc_any_4k", "a64_core_refusal"],
        thorough=["x64_alloc_any_4k", "x64_alloc_any_16k", "x64_alloc_any_64k", "x64_alloc_layout_16m", "x64_alloc_layout_8m",
                  "a64_alloc_any_4k", "a64_alloc_any_16k", "a64_alloc_any_64k", "a64_alloc_layout_16m", "a64_alloc_layout_8m", "a64_core_refusal"],
        timeout_min={"quick": 30, "thorough": 180},
        outside=["full +-128 MiB window with 4 KiB pages (65 537 iterations)", "Windows and macOS allocators"],
    ),
    "C15": dict(
        level_text="(a) every bit-level emitter against the A64 encoding tables for ALL inputs (all imm16/hw/Rd/sf, all 2^64 addresses in every chunk position, all register numbers); (b) the full installation: an independent A64 interpreter started at the function lands exactly on the trampoline writing no register, the trampoline builds exactly the fake's 64-bit address (all 2^64-1 values in one query) in a register in x9..x17 and branches to it, or sets w0 and returns; (c) displacements outside [-128 MiB,+128 MiB) are refused (panic reachable, nothing accepted outside).",
        level_note="Linux variant. The macOS long-jump encoder (maybe_emit_long_jump / ADRP+ADD+BR) needs the macOS variant, see a64-macos harnesses if present. Replays are simulated.",
        quick=["a64_emit_mov_tables", "a64_emit_branch_tables", "a64_emit_bits_roundtrip", "a64_core_boolean", "a64_core_refusal"],
        thorough=["a64_emit_mov_tables", "a64_emit_mov_from_address", "a64_emit_branch_tables", "a64_emit_bits_roundtrip", "a64_core_redirect", "a64_core_boolean", "a64_core_refusal"],
        timeout_min={"quick": 25, "thorough": 120},
        outside=["macOS long form unless the a64-macos harnesses are listed", "execution on hardware"],
    ),
    "C16": dict(
        level_text="All 2^32 x 2^32 (target, fake) pairs in each of the three entry cases (A32; T32 4-byte aligned; T32 2-byte aligned) in one query per obligation: independent A32/T32 interpreters with Align(PC,4) semantics decide that the literal the load actually reads holds the fake's address and the BX operand is that register, that at most the 12 written bytes are executed/read, that the saved bytes restore the entry exactly, and which registers are written.",
        level_note="Replays are simulated (no ARM hardware/emulator here): the real patch_arm.rs is compiled for the host. The callee-saved scratch registers r9 (A32) and r7 (Thumb) are a known finding (known_findings.json).",
        quick=["arm_core_a32", "arm_core_t32_aligned", "arm_core_t32_misaligned"],
        thorough=["arm_core_a32", "arm_core_t32_aligned", "arm_core_t32_misaligned", "arm_api_same2"],
        outside=["forced-boolean flavour on ARM beyond 'it is an ordinary redirect' (function addresses are 64-bit in the host model)"],
    ),
    "C17": dict(
        level_text="Dirty-bit model decided by the solver: every simulated write marks its bytes dirty, a flush clears the bytes it covers; at return from every installation and from drop no byte may be dirty, and no instruction byte on the interpreted path may be dirty, for every placement and for histories L<=2/3 (x86-64 Linux and 32-bit ARM so far).",
        level_note="Whether __clear_cache itself works is outside. macOS/Windows primitives are not modelled here.",
        quick=["x64_core_redirect", "x64_core_boolean", "x64_api_hist_l1", "arm_core_a32", "a64_core_boolean"],
        thorough=["x64_core_redirect", "x64_core_boolean", "x64_api_hist_l2", "x64_api_hist_l3", "arm_core_a32", "arm_core_t32_misaligned", "arm_api_same2", "a64_core_redirect", "a64_core_boolean"],
        outside=["correctness of the platform flush primitive", "macOS and Windows"],
    ),
}


def premise_only_static_is_lock(work, tier):
    """C12 induction premise: outside macro bodies the crate has exactly one static (the lock)."""
    st = regen.statics()
    outside_macros = [x for x in st if x[0] != os.path.join("interface", "macros.rs")]
    ok = len(outside_macros) == 1 and outside_macros[0][2] == "LOCK_FUNCTION"
    return {"name": "only_static_is_lock", "ok": True if ok else None, "evaluations": len(st), "distinct": len(outside_macros),
            "detail": "statics outside macros.rs: %r" % (outside_macros,), "samples": [list(x) for x in st[:3]]}


def _native(work, scenario, tag):
    import native
    try:
        r = native.run_scenario(work, scenario, tag)
    except Exception as e:
        return {"reproduced": None, "mode": "native", "detail": "replay build/run failed: %r" % (e,)}
    return {"reproduced": native.verdict(r), "mode": "native (real crate, real OS, child process)",
            "detail": r["meaning"] + "; " + " | ".join(r["output"].strip().splitlines()[-3:]), "scenario": scenario,
            "output": r["output"]}


def replay_x64_core(rec, work):
    """one synthetic target at the counterexample's page offset, fake near or far, install / call / drop"""
    cx = rec.get("counterexample") or {}
    f = cx.get("f")
    if f is None:
        return {"reproduced": None, "detail": "counterexample values not available"}
    off = f & 4095
    if "value" in cx:
        v = cx["value"] & 1
        scn = "func 0 %x %d 11\nnew\nbool 0 %d\ncall 0 %d\ndrop\nbytes 0\ncall 0 11\nmaps\n" % (f, off, v, v)
    else:
        t, j = cx.get("t", 0), cx.get("j", 0)
        far = "far" if abs(t - (j + 5)) > 0x7fffffff else "near"
        scn = "func 0 %x %d 11\nfakefn F %s 777\nnew\nraw 0 F\ncall 0 777\ndrop\nbytes 0\ncall 0 11\nmaps\n" % (f, off, far)
    return _native(work, scn, rec["harness"])


def replay_x64_api(rec, work):
    """history through the real API on synthetic functions: install per step, call, drop, compare"""
    cx = rec.get("counterexample") or {}
    if "f0" not in cx:
        return {"reproduced": None, "detail": "counterexample values not available"}
    offs = [cx["f0"] & 4095, cx["f1"] & 4095]
    lines = ["func 0 - %d 11" % offs[0], "func 1 - %d 22" % offs[1], "fakefn A near 701", "fakefn B near 702", "fakefn C near 703", "new"]
    cur = {}
    i = 0
    fakes = ["A", "B", "C"]
    while ("k%d" % i) in cx:
        k = cx["k%d" % i] & 1
        if cx["raw%d" % i] & 1:
            lines.append("raw %d %s" % (k, fakes[i % 3]))
            cur[k] = 701 + (i % 3)
        else:
            v = cx["v%d" % i] & 1
            lines.append("bool %d %d" % (k, v))
            cur[k] = v
        i += 1
    for k in (0, 1):
        lines.append("call %d %d" % (k, cur.get(k, 11 if k == 0 else 22)))
    lines += ["drop", "bytes 0", "bytes 1", "call 0 11", "call 1 22", "maps"]
    return _native(work, "\n".join(lines) + "\n", rec["harness"])


def replay_file(path):
    rec = json.load(open(path))
    print(json.dumps(rec, indent=1))
    return 0
