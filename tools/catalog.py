"""Harness and property catalogue (what each harness encodes, bounds, expected panics, covers)."""
import os, re, json, subprocess, shutil, tempfile
import regen

VERIF = regen.VERIF

COMMON_ASSUMPTIONS = [
    "R1-R4 (DESIGN.md 1.1): the checked text is /repo/src with cfg(target_arch/target_os) keys resolved for the variant, asm! replaced by a barrier marker, and cfg(kani)-only read accessors appended; the diff is audited on every run",
    "Kani stubs: std::ptr::copy_nonoverlapping -> simulated memory for integer-valued addresses (< 2^47), real copies otherwise; <*mut u8>::add -> wrapping_add; the platform cache-flush primitive -> dirty-bit model",
    "libc shim: mmap/munmap/mprotect/sysconf answered by the simulated OS in /verif/shims/libc (kernel model named per harness)",
    "the CPU decodes instructions as the independent interpreter in /verif/harness/*dec.rs does (written from the architecture manuals)",
    "Kani models the dev profile (overflow checks on); CBMC/CaDiCaL are trusted",
]

X64_CORE_FUNCS = [
    "PatchAmd64::replace_function_with_other_function", "PatchAmd64::replace_function_return_boolean",
    "patch_amd64::generate_branch_to_target_function", "patch_amd64::generate_will_return_boolean_jit_code",
    "patch_amd64::patch_and_guard", "common::allocate_jit_memory", "common::allocate_jit_memory_unix",
    "common::read_bytes", "common::patch_function", "common::make_memory_writable_and_executable_linux",
    "common::inject_asm_code", "common::clear_cache", "PatchGuard::new", "PatchGuard::drop",
]

HARNESSES = {}


def H(name, **kw):
    kw.setdefault("modules", [])
    kw.setdefault("covers", [])
    kw.setdefault("expected", [])
    kw.setdefault("must_reach", [])
    HARNESSES[name] = kw


def fq(name):
    s = HARNESSES[name]
    return "verif::%s::%s" % (s.get("mod") or s["modules"][-1], name)


# ---------------------------------------------------------------------------------------------
# family A: x86-64, one installation at injector_core level
# ---------------------------------------------------------------------------------------------
H("x64_core_redirect", variant="x64-linux", modules=["rt", "x64dec", "x64_core"],
  covers=["COVER: rel32 trampoline form", "COVER: abs64 trampoline form",
          "COVER: entry patch straddles a page boundary", "COVER: target below 128 MiB",
          "COVER: trampoline above the target", "COVER: trampoline below the target"],
  functions=X64_CORE_FUNCS,
  symbolic="f in [4096,2^46) any page offset; 24 initial entry bytes; t in [1,2^63); trampoline j = any free page with |j-f| <= 128 MiB; full register file, rsp, return address",
  bounds="one installation + drop; loop unwind 26 (covers every loop in the path; unwinding assertions on); cooperative kernel (first mmap succeeds in range)",
  assumptions=["cooperative kernel: the first hinted mmap returns a free page within +-128 MiB of the target (retry loop is C11's)",
               "the fake's address is not inside the patched entry slot or the trampoline page"],
  cex_schema=[("f", 8, 1), ("entry_bytes", 1, 24), ("t", 8, 1), ("j", 8, 1)],
  replay="replay_x64_core")
H("x64_core_boolean", variant="x64-linux", modules=["rt", "x64dec", "x64_core"],
  covers=["COVER: true", "COVER: false"],
  functions=X64_CORE_FUNCS,
  symbolic="f, 24 entry bytes, value in {true,false}, j as above; full register file, rsp, return address",
  bounds="one installation + drop; loop unwind 26; cooperative kernel",
  cex_schema=[("f", 8, 1), ("entry_bytes", 1, 24), ("value", 1, 1), ("j", 8, 1)],
  replay="replay_x64_core")


NOT_APPLICABLE = {}

PROPERTIES = {
    "C01": dict(
        level_text="Bounded model checking of the real x86-64 installation code: for every function address (any page offset), trampoline placement within the allocator's range and fake address in [1,2^63), an independent x86-64 interpreter started at the function arrives at exactly the fake (or the boolean stub returns the value), and every write hit a page the code had made writable. One installation per harness; the retry loop of the allocator is C11's.",
        level_note="Trusted: the simulated OS/memory model and the stubs that route copy_nonoverlapping to it, the x86-64 interpreter, CBMC. Assumed: cooperative kernel for the first mmap; fake not inside the patched slot. Outside: execution of the fake, concurrent execution of the bytes being patched.",
        quick=["x64_core_redirect", "x64_core_boolean"],
        thorough=["x64_core_redirect", "x64_core_boolean"],
        outside=["execution of the fake's own code", "calls already executing inside the first 5/12 bytes while the patch is written",
                 "kernel-half fake addresses (>= 2^63)"],
    ),
}


def _native(work, scenario, tag):
    import native
    try:
        r = native.run_scenario(work, scenario, tag)
    except Exception as e:
        return {"reproduced": None, "mode": "native", "detail": "replay build/run failed: %r" % (e,)}
    return {"reproduced": native.verdict(r), "mode": "native (real crate, real OS, child process)",
            "detail": r["meaning"] + "; " + " | ".join(r["output"].strip().splitlines()[-3:]), "scenario": scenario,
            "output": r["output"]}


def replay_x64_core(rec, work):
    """one synthetic target at the counterexample's page offset, fake near or far, install / call / drop"""
    cx = rec.get("counterexample") or {}
    f = cx.get("f")
    if f is None:
        return {"reproduced": None, "detail": "counterexample values not available"}
    off = f & 4095
    if "value" in cx:
        v = cx["value"] & 1
        scn = "func 0 %x %d 11\nnew\nbool 0 %d\ncall 0 %d\ndrop\nbytes 0\ncall 0 11\nmaps\n" % (f, off, v, v)
    else:
        t, j = cx.get("t", 0), cx.get("j", 0)
        far = "far" if abs(t - (j + 5)) > 0x7fffffff else "near"
        scn = "func 0 %x %d 11\nfakefn F %s 777\nnew\nraw 0 F\ncall 0 777\ndrop\nbytes 0\ncall 0 11\nmaps\n" % (f, off, far)
    return _native(work, scn, rec["harness"])


def replay_file(path):
    rec = json.load(open(path))
    print(json.dumps(rec, indent=1))
    return 0
