#!/usr/bin/env python3
"""Regenerate a Kani-compilable scratch crate from the *current* /repo/src.

Usage (library): regen(variant, dest, modules) -> dict(summary)
Usage (cli):     regen.py <variant> <dest> <module>[,<module>...]

Mechanical edits applied to the copy (DESIGN.md 1.1):
  R1  target_arch="…"/target_os="…" cfg keys -> all() / any() for the variant
  R2  core::arch::asm!(  ->  verif_asm!(
  R3  cfg(kani) read-only accessors appended to injector.rs and func_ptr.rs
  R4  lib.rs: crate attributes, verif_asm! definition, `mod verif;`
After the edits the copy is diffed against /repo/src and every changed line must be
explained by R1-R4, else RegenError (=> inconclusive, never a VIOLATION).
"""
import os, re, shutil, subprocess, sys, hashlib, difflib

VERIF = os.path.dirname(os.path.dirname(os.path.abspath(__file__)))
REPO = os.environ.get("VERIF_REPO", "/repo")

VARIANTS = {
    "x64-linux": ("x86_64", "linux"),
    "x64-windows": ("x86_64", "windows"),
    "a64-linux": ("aarch64", "linux"),
    "a64-macos": ("aarch64", "macos"),
    "arm-linux": ("arm", "linux"),
}


class RegenError(Exception):
    pass


CFG_KEY = re.compile(r'(target_arch|target_os)\s*=\s*"([A-Za-z0-9_]+)"')

R3_INJECTOR = '''
// ---- appended by /verif/tools/regen.py (R3): read-only observation, scratch copy only ----
#[cfg(kani)]
#[doc(hidden)]
pub fn __verif_lock_held() -> bool {
    matches!(
        LOCK_FUNCTION.inner.try_lock(),
        Err(std::sync::TryLockError::WouldBlock)
    )
}
#[cfg(kani)]
#[doc(hidden)]
pub fn __verif_lock_poisoned() -> bool {
    LOCK_FUNCTION.inner.is_poisoned()
}
#[cfg(kani)]
impl InjectorPP {
    #[doc(hidden)]
    pub fn __verif_counts(&self) -> (usize, usize) {
        (self.guards.len(), self.verifiers.len())
    }
}
'''

R3_FUNCPTR = '''
// ---- appended by /verif/tools/regen.py (R3): read-only observation, scratch copy only ----
#[cfg(kani)]
impl FuncPtr {
    #[doc(hidden)]
    pub fn __verif_raw(&self) -> *const () {
        self.func_ptr_internal.as_ptr()
    }
    #[doc(hidden)]
    pub fn __verif_sig(&self) -> &'static str {
        self.signature
    }
}
'''

R4_PRE = '''#![cfg_attr(kani, feature(core_intrinsics))]
#![cfg_attr(kani, allow(internal_features))]
#![allow(unexpected_cfgs, unused_imports, dead_code, unused_macros)]
'''
R4_MACRO = '''macro_rules! verif_asm { ($($t:tt)*) => { crate::verif::rt::barrier() } }
'''
R4_POST = '''
#[cfg(kani)]
pub mod verif;
'''


def tree_hash(path):
    h = hashlib.sha256()
    for root, dirs, files in os.walk(path):
        dirs.sort()
        for f in sorted(files):
            p = os.path.join(root, f)
            h.update(os.path.relpath(p, path).encode())
            h.update(open(p, "rb").read())
    return h.hexdigest()


def rewrite_cfg(text, arch, osname):
    def rep(m):
        key, val = m.group(1), m.group(2)
        want = arch if key == "target_arch" else osname
        return "all()" if val == want else "any()"

    return CFG_KEY.sub(rep, text)


def regen(variant, dest, modules, extra_files=None, quiet=True):
    arch, osname = VARIANTS[variant]
    src = os.path.join(REPO, "src")
    if not os.path.isdir(src):
        raise RegenError("no src directory in " + REPO)
    os.makedirs(dest, exist_ok=True)
    dsrc = os.path.join(dest, "src")
    shutil.rmtree(dsrc, ignore_errors=True)
    shutil.copytree(src, dsrc)
    summary = {"variant": variant, "repo_src_sha256": tree_hash(src), "rules": {"R1": 0, "R2": 0, "R3": 0, "R4": 0}}
    # R1 + R2 on every file
    for root, _, files in os.walk(dsrc):
        for f in files:
            if not f.endswith(".rs"):
                continue
            p = os.path.join(root, f)
            s = open(p).read()
            o = s
            s2 = rewrite_cfg(s, arch, osname)
            summary["rules"]["R1"] += sum(1 for a, b in zip(s.splitlines(), s2.splitlines()) if a != b)
            s3 = s2.replace("core::arch::asm!(", "verif_asm!(")
            summary["rules"]["R2"] += s2.count("core::arch::asm!(")
            if s3 != o:
                open(p, "w").write(s3)
    # R3
    inj = os.path.join(dsrc, "interface", "injector.rs")
    fp = os.path.join(dsrc, "interface", "func_ptr.rs")
    for p, add, needles in ((inj, R3_INJECTOR, ["LOCK_FUNCTION", "inner", "guards", "verifiers"]),
                            (fp, R3_FUNCPTR, ["func_ptr_internal", "signature"])):
        if not os.path.isfile(p):
            raise RegenError("R3: missing " + p)
        s = open(p).read()
        for n in needles:
            if n not in s:
                raise RegenError("R3: %s no longer mentions %s; the accessor cannot be attached" % (p, n))
        open(p, "w").write(s + add)
        summary["rules"]["R3"] += 1
    # R4
    lib = os.path.join(dsrc, "lib.rs")
    s = open(lib).read()
    m = re.search(r'^(pub(\([a-z]+\))?\s+)?mod injector_core;', s, re.M)
    if not m:
        raise RegenError("R4: `mod injector_core;` not found in lib.rs")
    # inner attributes must stay first: put ours before everything, the macro before the first mod
    s = R4_PRE + s[:m.start()] + R4_MACRO + s[m.start():] + R4_POST
    open(lib, "w").write(s)
    summary["rules"]["R4"] = 1
    # audit
    audit(src, dsrc, arch, osname)
    # harness modules
    vdir = os.path.join(dsrc, "verif")
    os.makedirs(vdir)
    hdir = os.path.join(VERIF, "harness")
    mods = []
    for mname in modules:
        shutil.copy(os.path.join(hdir, mname + ".rs"), os.path.join(vdir, mname + ".rs"))
        mods.append(mname)
    for name, content in (extra_files or {}).items():
        open(os.path.join(vdir, name + ".rs"), "w").write(content)
        mods.append(name)
    with open(os.path.join(vdir, "mod.rs"), "w") as fh:
        fh.write("#![allow(static_mut_refs, unused_unsafe, unused_imports, dead_code, unused_variables, unused_mut, clippy::all)]\n")
        for mname in mods:
            fh.write("pub mod %s;\n" % mname)
        rng = 0x8000_0000 if osname in ("windows", "macos") else 0x800_0000
        fh.write("pub const VARIANT: &str = \"%s\";\n" % variant)
        fh.write("/// the trampoline search range the allocator of this variant uses\n")
        fh.write("pub const VARIANT_RANGE: u64 = 0x%x;\n" % rng)
    # private copy of the libc shim (checks running in parallel must not see each other's edits)
    shim_dst = os.path.join(dest, "shim_libc")
    shutil.rmtree(shim_dst, ignore_errors=True)
    shutil.copytree(os.path.join(VERIF, "shims", "libc"), shim_dst, ignore=shutil.ignore_patterns("target", "Cargo.lock"))
    # Cargo project
    with open(os.path.join(dest, "Cargo.toml"), "w") as fh:
        fh.write('''[package]
name = "injectorpp"
version = "0.0.0"
edition = "2021"

[lib]
path = "src/lib.rs"

[dependencies]
libc = { path = "%s" }
%s

[workspace]

[lints.rust]
unexpected_cfgs = { level = "allow", check-cfg = ['cfg(kani)'] }
''' % (shim_dst, ('mach2 = { path = "%s" }' % os.path.join(VERIF, "shims", "mach2")) if osname == "macos" else ""))
    os.makedirs(os.path.join(dest, ".cargo"), exist_ok=True)
    with open(os.path.join(dest, ".cargo", "config.toml"), "w") as fh:
        fh.write("[net]\noffline = true\n")
    summary["modules"] = mods
    return summary


def audit(src, dsrc, arch, osname):
    """every changed line must be explained by R1-R4"""
    for root, _, files in os.walk(dsrc):
        for f in files:
            if not f.endswith(".rs"):
                continue
            p = os.path.join(root, f)
            rel = os.path.relpath(p, dsrc)
            new = open(p).read()
            if re.search(r'target_(arch|os)\s*=', new):
                raise RegenError("audit: cfg key left in " + rel)
            if "asm!(" in new.replace("verif_asm!(", ""):
                raise RegenError("audit: inline asm left in " + rel)
            old = open(os.path.join(src, rel)).read()
            exp = rewrite_cfg(old, arch, osname).replace("core::arch::asm!(", "verif_asm!(")
            if rel == os.path.join("interface", "injector.rs"):
                exp += R3_INJECTOR
            elif rel == os.path.join("interface", "func_ptr.rs"):
                exp += R3_FUNCPTR
            elif rel == "lib.rs":
                m = re.search(r'^(pub(\([a-z]+\))?\s+)?mod injector_core;', exp, re.M)
                exp = R4_PRE + exp[:m.start()] + R4_MACRO + exp[m.start():] + R4_POST
            if exp != new:
                raise RegenError("audit: unexplained difference in " + rel)
    # nothing in the source may already depend on cfg(kani)
    for root, _, files in os.walk(src):
        for f in files:
            if f.endswith(".rs") and re.search(r'cfg\s*\(\s*kani', open(os.path.join(root, f)).read()):
                raise RegenError("audit: /repo/src already uses cfg(kani) in " + f)


def statics(src=None):
    """names of `static` items in the crate (C12 induction premise: the lock is the only one
    outside macro expansions)"""
    src = src or os.path.join(REPO, "src")
    out = []
    for root, _, files in os.walk(src):
        for f in sorted(files):
            if f.endswith(".rs"):
                for i, line in enumerate(open(os.path.join(root, f)), 1):
                    m = re.match(r'\s*(pub(\([a-z]+\))?\s+)?static\s+(mut\s+)?([A-Za-z_0-9]+)', line)
                    if m and not line.lstrip().startswith("//"):
                        out.append((os.path.relpath(os.path.join(root, f), src), i, m.group(4)))
    return out


if __name__ == "__main__":
    v, d, mods = sys.argv[1], sys.argv[2], sys.argv[3].split(",")
    print(regen(v, d, mods))
