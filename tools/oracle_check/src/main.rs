//! Runs the INDEPENDENT interpreters of /verif/harness natively on byte sequences that LLVM
//! assembled, so that the oracles themselves can be compared with a third party's reading of the
//! architecture manuals (tools/catalog.py: premise_oracles_vs_llvm).  The decoder sources are
//! included verbatim (kani::any is replaced by Default at build time by the driver).
//! stdin lines:  a64 <pc hex> <word hex>...      -> one step per word until a transfer
//!               a32|t32 <base hex> <16 bytes hex>
//!               x64 <base hex> <24 bytes hex>
#![allow(dead_code, unused_imports, static_mut_refs)]
mod a64dec;
mod armdec;
mod x64dec;
use std::io::BufRead;

fn hexbytes(h: &str) -> Vec<u8> {
    (0..h.len() / 2).map(|i| u8::from_str_radix(&h[2 * i..2 * i + 2], 16).unwrap()).collect()
}

fn main() {
    for line in std::io::stdin().lock().lines() {
        let line = line.unwrap();
        let w: Vec<&str> = line.split_whitespace().collect();
        if w.is_empty() {
            continue;
        }
        match w[0] {
            "a64" => {
                let pc0 = u64::from_str_radix(w[1], 16).unwrap();
                let mut c = a64dec::A64 { x: [0; 32], sp: 0x7000, pc: pc0, bad: false, returned: false, written: 0, wrote_mem: false, fetched_dirty: false };
                for i in 0..32 {
                    c.x[i] = 0x1111_0000_0000_0000 + i as u64;
                }
                let mut done = false;
                for (k, ws) in w[2..].iter().enumerate() {
                    let word = u32::from_str_radix(ws, 16).unwrap();
                    if a64dec::step(&mut c, word, pc0 + 4 * k as u64) {
                        done = true;
                        break;
                    }
                }
                let regs: Vec<String> = (0..31).filter(|i| c.written & (1 << i) != 0).map(|i| format!("x{}={:x}", i, c.x[i])).collect();
                println!("a64 done={} bad={} ret={} pc={:x} written={:x} {}", done, c.bad, c.returned, c.pc, c.written, regs.join(" "));
            }
            "a32" | "t32" => {
                let base = u32::from_str_radix(w[1], 16).unwrap();
                let b = hexbytes(w[2]);
                let mut code = [0u8; 16];
                code[..b.len().min(16)].copy_from_slice(&b[..b.len().min(16)]);
                let r = if w[0] == "a32" { armdec::run_a32(base, &code) } else { armdec::run_t32(base, &code) };
                match r {
                    Some(r) => println!("{} ok dest={:x} written={:x} literal_off={} extent={}", w[0], r.dest, r.written, r.literal_off, r.extent),
                    None => println!("{} none", w[0]),
                }
            }
            "x64" => {
                let base = u64::from_str_radix(w[1], 16).unwrap();
                let b = hexbytes(w[2]);
                let mut code = [0u8; 24];
                code[..b.len().min(24)].copy_from_slice(&b[..b.len().min(24)]);
                let mut c = x64dec::Cpu { regs: [0; 16], rsp: 0x7000, ret_addr: 0xabc0, pc: base, bad: false, returned: false, wrote_mem: false, fetched_dirty: false };
                for i in 0..16 {
                    c.regs[i] = 0x2222_0000_0000_0000 + i as u64;
                }
                let c0 = c;
                x64dec::exec_block_pub(&mut c, base, &code);
                let regs: Vec<String> = (0..16).filter(|&i| c.regs[i] != c0.regs[i]).map(|i| format!("r{}={:x}", i, c.regs[i])).collect();
                println!("x64 bad={} ret={} pc={:x} rsp={:x} mem={} {}", c.bad, c.returned, c.pc, c.rsp, c.wrote_mem, regs.join(" "));
            }
            _ => println!("?"),
        }
    }
}
