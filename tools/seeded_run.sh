#!/bin/sh
# usage: tools/seeded_run.sh <tier> "<seed-id>:<prop>" ...   applies /verif/seeded/<id>/patch.diff in the scratch
# worktree /tmp/seed/self (created on demand) and runs the check against it; /repo is never modified
tier=$1; shift
[ -d /tmp/seed/self ] || git -C /repo worktree add -q /tmp/seed/self HEAD
cd /tmp/seed/self || exit 9
git checkout -q --detach "$(git -C /repo rev-parse HEAD)" 2>/dev/null
for pair in "$@"; do
  m=${pair%%:*}; p=${pair##*:}
  git checkout -q -- src; git apply /verif/seeded/$m/patch.diff || { echo "== $m: patch does not apply"; continue; }
  s=$(date +%s); out=$(cd /verif && VERIF_REPO=/tmp/seed/self ./check $p $tier 2>&1); rc=$?; e=$(date +%s)
  echo "== seeded=$m prop=$p tier=$tier rc=$rc $((e-s))s"; echo "$out" | grep -v "^note:\|KNOWN-FINDING" | grep "VIOLATION\|INCONCLUSIVE\|^OK" | head -4 | cut -c1-240
  git checkout -q -- src
done
