#!/bin/sh
# usage: tools/seed_eval.sh <tier> "<mutant_dir>:<prop>" ...   (mutant_dir has src/ with the change applied)
tier=$1; shift
cd "$(dirname "$0")/.."
for pair in "$@"; do
  d=${pair%%:*}; p=${pair##*:}
  s=$(date +%s); out=$(VERIF_REPO=$d ./check $p $tier 2>&1); rc=$?; e=$(date +%s)
  echo "== mutant=$d prop=$p tier=$tier rc=$rc $((e-s))s"; echo "$out" | grep -v "^note:" | tail -4 | cut -c1-260
done
