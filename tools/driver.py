"""Check driver: property -> harness runs -> verdict -> evidence.  See DESIGN.md 1.3-1.5."""
import os, sys, json, time, re, shutil, tempfile, fnmatch, subprocess, traceback

import regen, kani_run, catalog

VERIF = regen.VERIF
REPO = regen.REPO
EVID = os.path.join(VERIF, "evidence")
REPLAYS = os.path.join(VERIF, "replays")
KNOWN = os.path.join(VERIF, "known_findings.json")


def log(*a):
    print(*a, flush=True)


def load_known():
    if not os.path.isfile(KNOWN):
        return []
    return json.load(open(KNOWN)).get("findings", [])


def known_match(prop, harness, desc, known):
    for k in known:
        if k.get("status") != "known" or k.get("property") != prop:
            continue
        if not fnmatch.fnmatch(harness, k.get("harness", "*")):
            continue
        if re.search(k["obligation"], desc):
            return k
    return None


def tool_versions():
    try:
        out = subprocess.run(["cargo", "kani", "--version"], stdout=subprocess.PIPE, stderr=subprocess.STDOUT, text=True,
                             env=kani_run.KANI_ENV).stdout
        return " / ".join(l.strip() for l in out.splitlines() if l.strip())
    except Exception:
        return "unknown"


def git_head(path):
    try:
        return subprocess.run(["git", "-C", path, "rev-parse", "--short", "HEAD"], stdout=subprocess.PIPE, text=True).stdout.strip()
    except Exception:
        return "?"


def classify(prop, spec, res):
    """-> dict(viol=[Check], other_prop=[Check], inconclusive=[str], covers={desc:bool}, decided=int, mine=[Check])"""
    out = {"viol": [], "other_prop": [], "inconclusive": [], "covers": {}, "decided": 0, "mine": [], "expected_hit": []}
    if res["status"] != "ok":
        out["inconclusive"].append("harness %s: %s" % (res["harness"], res["status"]))
        return out
    checks = res["checks"]
    out["decided"] = len(checks)
    if not checks:
        out["inconclusive"].append("harness %s produced no check results" % res["harness"])
    reached = set()
    for c in checks:
        if c.cls == "cover":
            # CBMC encodes cover!(c) as assert(!c): FAILURE == satisfied
            out["covers"][c.desc] = (c.status == "FAILURE") or out["covers"].get(c.desc, False)
            continue
        tags = c.tags()
        if tags:
            if prop in tags:
                out["mine"].append(c)
                if c.status == "FAILURE":
                    out["viol"].append(c)
            elif c.status == "FAILURE":
                out["other_prop"].append(c)
            continue
        if c.status != "FAILURE":
            continue
        if c.desc.startswith("MODEL:"):
            out["inconclusive"].append("%s: %s" % (res["harness"], c.desc))
            continue
        if c.cls == "unwind":
            out["inconclusive"].append("%s: unwinding assertion failed in %s (bound too small)" % (res["harness"], c.func))
            continue
        forb = None
        for (fre, dre, props, msg) in spec.get("forbidden", []):
            if re.search(fre, c.func) and re.search(dre, c.desc):
                forb = (props, msg)
                break
        if forb:
            props, msg = forb
            synth = kani_run.Check(c.name, c.line, "VERIF[%s]: %s" % (",".join(props), msg), "FAILURE", c.file)
            if prop in props:
                out["mine"].append(synth)
                out["viol"].append(synth)
            else:
                out["other_prop"].append(synth)
            continue
        hit = False
        for i, (fre, dre) in enumerate(spec.get("expected", [])):
            if re.search(fre, c.func) and re.search(dre, c.desc):
                hit = True
                reached.add(i)
                out["expected_hit"].append(c)
                break
        if hit:
            continue
        if c.cls == "unsupported_construct":
            out["inconclusive"].append("%s: unsupported construct reachable in %s: %s" % (res["harness"], c.func, c.desc[:80]))
            continue
        out["inconclusive"].append("%s: unexpected failed check [%s] line %d: %s" % (res["harness"], c.name, c.line, c.desc[:100]))
    for i in spec.get("must_reach", []):
        if i not in reached:
            fre, dre = spec["expected"][i]
            out["inconclusive"].append("%s: expected panic %s/%s is not reachable (vacuous harness)" % (res["harness"], fre, dre))
    if spec.get("covers_dynamic"):
        if not out["covers"]:
            out["inconclusive"].append("%s: no reachability witness was reported" % res["harness"])
        for cv, sat in out["covers"].items():
            if not sat:
                out["inconclusive"].append("%s: reachability witness not satisfied: %s" % (res["harness"], cv))
    for cv in spec.get("covers", []):
        if not out["covers"].get(cv, False):
            out["inconclusive"].append("%s: reachability witness not satisfied: %s" % (res["harness"], cv))
    return out


def run_property(prop, tier, seed):
    t0 = time.time()
    P = catalog.PROPERTIES[prop]
    names = list(P[tier] if tier in P else P["quick"])
    extra = P.get("seed_rotation", [])
    if tier == "quick" and extra:
        # VERIF_SEED only rotates which ONE additional (thorough-tier) harness joins the quick run;
        # no verdict depends on randomness
        pick = extra[seed % len(extra)]
        if pick not in names:
            names.append(pick)
    specs = {n: catalog.HARNESSES[n] for n in names}
    known = load_known()
    work = tempfile.mkdtemp(prefix="verif_%s_" % prop)
    logs = os.path.join(work, "logs")
    results, regen_info = {}, {}
    incon, violations, known_hits, notes = [], [], [], []
    premise_out = []
    try:
        # ---- non-solver premises (reported separately) ----
        for prem in P.get("premises", []):
            try:
                r = getattr(catalog, prem)(work, tier)
            except Exception as e:
                r = {"name": prem, "ok": None, "detail": "premise check crashed: %r" % (e,)}
                traceback.print_exc()
            premise_out.append(r)
        # ---- solver harnesses ----
        by_variant = {}
        for n, s in specs.items():
            by_variant.setdefault(s["variant"], []).append(n)
        jobs_total = int(os.environ.get("VERIF_JOBS", "12"))
        import concurrent.futures
        def run_variant(variant):
            hs = by_variant[variant]
            mods, extra_files = [], {}
            for n in hs:
                for m in specs[n]["modules"]:
                    if m not in mods:
                        mods.append(m)
                gen = specs[n].get("generated")
                if gen:
                    for k, v in getattr(catalog, gen)().items():
                        extra_files[k] = v
            scratch = os.path.join(work, variant)
            info = regen.regen(variant, scratch, mods, extra_files)
            regen_info[variant] = info
            timeout = 60 * (P.get("timeout_min", {}).get(tier, 25 if tier == "quick" else 120))
            rs = kani_run.run_many(scratch, [(n, specs[n].get("unwind"), specs[n].get("extra"), catalog.fq(n)) for n in hs],
                                   max(1, jobs_total // max(1, len(by_variant))), timeout, logs,
                                   mem_gb=specs[hs[0]].get("mem_gb", 14))
            return scratch, rs
        scratches = {}
        try:
            with concurrent.futures.ThreadPoolExecutor(max_workers=len(by_variant) or 1) as ex:
                for variant, (scratch, rs) in zip(by_variant, ex.map(run_variant, by_variant)):
                    scratches[variant] = scratch
                    results.update(rs)
        except regen.RegenError as e:
            incon.append("regen: %s" % e)
        cls = {}
        for n, r in results.items():
            c = classify(prop, specs[n], r)
            cls[n] = c
            incon += c["inconclusive"]
            for o in c["other_prop"]:
                notes.append("%s: obligation of another property failed (%s); %s obligations hold under the assumption that it does not" % (n, o.desc[:90], prop))
        # ---- violations: known finding, or replay then report ----
        for n, c in cls.items():
            seen = set()
            for v in c["viol"]:
                if v.desc in seen:
                    continue
                seen.add(v.desc)
                k = known_match(prop, n, v.desc, known)
                if k:
                    known_hits.append((k, n, v))
                    continue
                violations.append((n, v))
        replay_paths = []
        if violations:
            os.makedirs(REPLAYS, exist_ok=True)
            done = set()
            for n, v in violations:
                spec = specs[n]
                cex = None
                try:
                    tests = kani_run.concrete_playback(scratches[spec["variant"]], n,
                                                       os.path.join(scratches[spec["variant"]], "targets", n + "_pb"),
                                                       unwind=spec.get("unwind"), fq=catalog.fq(n))
                    for t in tests:
                        if t["desc"].strip('"') == v.desc or v.desc in t["desc"]:
                            cex = t
                            break
                except Exception as e:
                    notes.append("counterexample extraction failed for %s: %r" % (n, e))
                rp = os.path.join(REPLAYS, "%s_%s_%d.json" % (prop, n, abs(hash(v.desc)) % 100000))
                rec = {"property": prop, "harness": n, "variant": spec["variant"], "obligation": v.desc,
                       "check": v.name, "line": v.line, "repo_head": git_head(REPO),
                       "counterexample_draws": cex["values"] if cex else None,
                       "draw_sizes": cex["sizes"] if cex else None}
                if cex and spec.get("cex_schema"):
                    rec["counterexample"] = kani_run.decode_cex(cex, spec["cex_schema"])
                replayer = spec.get("replay")
                if replayer:
                    try:
                        rr = getattr(catalog, replayer)(rec, work)
                    except Exception as e:
                        rr = {"reproduced": None, "detail": "replay crashed: %r" % (e,)}
                        traceback.print_exc()
                else:
                    rr = {"reproduced": None, "mode": "solver-only",
                          "detail": "no native replay for this variant; the counterexample is the solver's assignment over the regenerated real source"}
                rec["replay"] = rr
                json.dump(rec, open(rp, "w"), indent=1, default=str)
                replay_paths.append((n, v, rp, rr))
        # premises that are violations by themselves (compiler verdicts etc.)
        prem_viol = []
        for r in premise_out:
            if r.get("ok") is False:
                for item in r.get("violations", [r.get("detail", "")]):
                    d = item if isinstance(item, str) else item.get("what", "")
                    k = known_match(prop, "premise:" + r["name"], d, known)
                    if k:
                        known_hits.append((k, "premise:" + r["name"], None))
                    else:
                        os.makedirs(REPLAYS, exist_ok=True)
                        rp = os.path.join(REPLAYS, "%s_%s_%d.json" % (prop, r["name"], abs(hash(d)) % 100000))
                        json.dump({"property": prop, "premise": r["name"], "what": item, "repo_head": git_head(REPO)}, open(rp, "w"), indent=1, default=str)
                        prem_viol.append((d, rp))
            elif r.get("ok") is None:
                incon.append("premise %s inconclusive: %s" % (r["name"], r.get("detail", "")))
        # ---- evidence ----
        wall = time.time() - t0
        evid = build_evidence(prop, tier, seed, P, specs, results, cls, regen_info, premise_out, incon, violations,
                              known_hits, notes, wall, replay_paths, prem_viol)
        # evidence under /verif/evidence describes /repo only; a run against another tree
        # (VERIF_REPO=<scratch worktree>, used to evaluate seeded changes) writes next to its replays
        other = os.environ.get("VERIF_REPO", "/repo").rstrip("/") != "/repo"
        edir = os.path.join(VERIF, "replays", "evidence_other_tree") if other else EVID
        os.makedirs(edir, exist_ok=True)
        json.dump(evid, open(os.path.join(edir, prop + ".json"), "w"), indent=1, default=str)
        # ---- report ----
        for k, n, v in known_hits:
            log("KNOWN-FINDING: property=%s %s" % (prop, k["what"]))
        for nt in notes:
            log("note:", nt)
        rc = 0
        nonrepro = []
        for n, v, rp, rr in replay_paths:
            if rr.get("reproduced") is False:
                nonrepro.append((n, v, rp, rr))
                continue
            log("VIOLATION property=%s replay=%s" % (prop, rp))
            log("  harness=%s obligation=%s" % (n, v.desc))
            log("  replay: %s" % (rr.get("detail", ""),))
            rc = 1
        for d, rp in prem_viol:
            log("VIOLATION property=%s replay=%s" % (prop, rp))
            log("  premise: %s" % d[:300])
            rc = 1
        if rc == 0 and nonrepro:
            for n, v, rp, rr in nonrepro:
                log("INCONCLUSIVE: counterexample for %s (%s) did not reproduce natively: %s [%s]" % (n, v.desc, rr.get("detail"), rp))
            rc = 2
        if rc == 0 and incon:
            for i in incon:
                log("INCONCLUSIVE:", i)
            rc = 2
        if rc == 0:
            nob = sum(len(c["mine"]) for c in cls.values())
            log("OK property=%s tier=%s harnesses=%d obligations=%d wall=%.0fs" % (prop, tier, len(results), nob, wall))
        if rc != 0 and os.environ.get("VERIF_KEEP_LOGS"):
            dst = os.path.join("/tmp", "verif_logs_%s" % prop)
            shutil.rmtree(dst, ignore_errors=True)
            shutil.copytree(logs, dst) if os.path.isdir(logs) else None
            log("logs kept in", dst)
        return rc
    finally:
        shutil.rmtree(work, ignore_errors=True)


def build_evidence(prop, tier, seed, P, specs, results, cls, regen_info, premises, incon, violations, known_hits, notes,
                   wall, replay_paths, prem_viol):
    samples, functions, bounds, assumptions = [], [], [], []
    decided = 0
    mine_distinct = set()
    stats_tot = {"symex_s": 0.0, "solver_s": 0.0, "solver_calls": 0, "max_vars": 0, "max_clauses": 0}
    per_h = []
    for n, r in results.items():
        c = cls[n]
        s = specs[n]
        decided += c["decided"]
        for m in c["mine"]:
            mine_distinct.add((n, m.desc))
        for cv, sat in c["covers"].items():
            if sat:
                mine_distinct.add((n, cv))
        st = r["stats"]
        stats_tot["symex_s"] += st["symex_s"]
        stats_tot["solver_s"] += st["solver_s"]
        stats_tot["solver_calls"] += st["solver_calls"]
        stats_tot["max_vars"] = max(stats_tot["max_vars"], st["vars"])
        stats_tot["max_clauses"] = max(stats_tot["max_clauses"], st["clauses"])
        per_h.append({
            "harness": n, "variant": s["variant"], "status": r["status"], "wall_s": r["wall_s"],
            "checks_decided": c["decided"],
            "property_obligations": sorted({m.desc + " => " + m.status for m in c["mine"]}),
            "covers": c["covers"],
            "expected_panics_reached": sorted({e.func + ": " + e.desc[:80] for e in c["expected_hit"]}),
            "bounds": s.get("bounds", ""), "sat_vars": st["vars"], "sat_clauses": st["clauses"],
            "symex_s": round(st["symex_s"], 1), "solver_s": round(st["solver_s"], 1), "solver_calls": st["solver_calls"],
        })
        for f in s.get("functions", []):
            if f not in functions:
                functions.append(f)
        if s.get("bounds"):
            bounds.append("%s: %s" % (n, s["bounds"]))
        for a in s.get("assumptions", []):
            if a not in assumptions:
                assumptions.append(a)
        for m in c["mine"][:3]:
            samples.append({"harness": n, "obligation": m.desc, "verdict": m.status, "symbolic_inputs": s.get("symbolic", "")})
    for a in catalog.COMMON_ASSUMPTIONS + P.get("assumptions", []):
        if a not in assumptions:
            assumptions.append(a)
    prem_count = sum(int(p.get("evaluations", 0)) for p in premises)
    for p in premises:
        for smp in p.get("samples", [])[:3]:
            samples.append({"premise": p["name"], "case": smp})
    if not samples:
        samples.append({"note": "no obligation was decided in this run"})
    ev = {
        "property_id": prop,
        "tier": tier,
        "seed": seed,
        "level": "model_checking",
        "coverage": {
            "evaluations": decided + prem_count,
            "distinct_nontrivial": len(mine_distinct) + sum(int(p.get("distinct", 0)) for p in premises),
            "rule": "evaluations = assertions/covers decided by CBMC's SAT back end over the regenerated real source (all values of the symbolic inputs within the stated bounds per assertion) plus premise cases; distinct_nontrivial = distinct (harness, obligation tagged VERIF[%s]) pairs decided plus distinct reachability witnesses (kani::cover) satisfied plus distinct premise cases" % prop,
            "samples": samples[:40],
            "exhaustive": False,
            "technique": "bounded model checking (%s): real functions compiled to a CBMC model, symbolic inputs, one SAT query per assertion" % tool_versions(),
            "functions_encoded": functions,
            "bounds": bounds,
            "outside_bounds": P.get("outside", []),
            "harnesses": per_h,
            "solver": {"engine": "CBMC 6.11 / CaDiCaL via Kani 0.68", "queries": stats_tot["solver_calls"],
                       "solver_s": round(stats_tot["solver_s"], 1), "symex_s": round(stats_tot["symex_s"], 1),
                       "max_sat_vars": stats_tot["max_vars"], "max_sat_clauses": stats_tot["max_clauses"]},
            "regeneration": regen_info,
            "repo_head": git_head(REPO),
            "premises_non_solver": [{k: v for k, v in p.items() if k not in ("samples",)} for p in premises],
            "inconclusive": incon,
            "notes": notes,
            "known_findings_hit": [{"what": k["what"], "harness": n} for k, n, v in known_hits],
            "violations_reported": [{"harness": n, "obligation": v.desc, "replay": rp, "replay_result": rr} for n, v, rp, rr in replay_paths]
                                   + [{"premise": d, "replay": rp} for d, rp in prem_viol],
        },
        "assumptions": assumptions,
        "wall_s": round(wall, 1),
        "violations": len([1 for x in replay_paths if x[3].get("reproduced") is not False]) + len(prem_viol),
    }
    return ev


def main(argv):
    if not argv or argv[0] in ("-h", "--help"):
        print(__doc__)
        print("properties:", " ".join(sorted(catalog.PROPERTIES)))
        return 0
    if argv[0] == "--list":
        for p in sorted(catalog.PROPERTIES):
            print(p, "quick:", ",".join(catalog.PROPERTIES[p]["quick"]), "| thorough:", ",".join(catalog.PROPERTIES[p].get("thorough", [])))
        return 0
    prop = argv[0]
    if prop not in catalog.PROPERTIES:
        print("unknown property", prop)
        return 2
    if len(argv) >= 3 and argv[1] == "--replay":
        return catalog.replay_file(argv[2])
    tier = argv[1] if len(argv) > 1 else os.environ.get("VERIF_TIER", "quick")
    if tier not in ("quick", "thorough"):
        tier = "quick"
    try:
        seed = int(os.environ.get("VERIF_SEED", "0"))
    except ValueError:
        seed = 0
    try:
        return run_property(prop, tier, seed)
    except regen.RegenError as e:
        log("INCONCLUSIVE: regen:", e)
        return 2
