#!/bin/sh
# usage: tools/run_all.sh quick|thorough [props...]   -> one line per property
tier=${1:-quick}; shift
cd "$(dirname "$0")/.."
props="$@"; [ -z "$props" ] && props=$(python3 -c "import sys; sys.path.insert(0,'tools'); import catalog; print(' '.join(sorted(catalog.PROPERTIES)))")
for p in $props; do
  s=$(date +%s); out=$(./check $p $tier 2>&1); rc=$?; e=$(date +%s)
  echo "== $p rc=$rc $((e-s))s"; echo "$out" | tail -6
done
