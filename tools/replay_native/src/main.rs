//! Native replay of solver counterexamples against the REAL injectorpp crate and the REAL OS
//! (x86-64 Linux only).  Reads a scenario (one op per line) from the file given as argv[1], runs
//! it in a forked child and reports what happened.  Exit status: 0 = every expectation met
//! (the counterexample does NOT reproduce), 3 = an expectation failed, 4 = child killed by a
//! signal (e.g. SIGSEGV), 5 = child panicked, 9 = scenario could not be set up.
//!
//! ops:
//!   func <id> <addr_hex|-> <page_off> <ret>   synthetic target `mov eax,<ret>; ret` at that page offset
//!                                             (exact address if given and free)
//!   fakefn <id> near|far <ret>                synthetic fake, within / beyond 2 GiB of target 0
//!   fakefn_rel <id> <target> <disp> <ret>     synthetic fake at EXACTLY trampoline(target) + disp, where the
//!                                             trampoline address is learnt from a trial installation on <target>
//!   fakeecho <id> near|far                    synthetic fake `mov rax,[rsp+8]; ret`: returns its FIRST STACK-PASSED argument
//!   callstack <target> <sentinel>             call <target> with two stack-passed arguments (7th = sentinel); the (faked)
//!                                             callee must receive the 7th argument where the ABI puts it
//!   new | drop                                create / drop the InjectorPP
//!   raw <target> <fake>                       when_called_unchecked(..).will_execute_raw_unchecked(..)
//!   bool <target> <0|1>                       when_called(sig "fn() -> bool").will_return_boolean(v)
//!   call <id> <expected>                      call it, compare rax
//!   callregs <id> <expected>                  call through an asm probe with sentinels in rbx, rbp, r12-r15 and
//!                                             1..6 in the argument registers; result, rsp and all sentinels checked
//!   bytes <id>                                16 entry bytes equal to the snapshot taken at creation
//!   maps                                      number of rwx anonymous mappings equals the count at start
//!   boolsig <target> <hex of signature>       will_return_boolean on a target recorded with that signature text:
//!                                             must be REFUSED (panic) - acceptance is the mismatch
//!   sigpair <target> <fake> <hexA> <hexB>     will_execute_raw with recorded signatures A (target) / B (replacement):
//!                                             must be refused iff A != B
//!   relife <N> <k1>                           a helper containing fake!(.., times: N) is evaluated in two lifetimes;
//!                                             k1 calls in the first (its verdict is ignored), exactly N in the second,
//!                                             which must admit them all and exit silently
//!   watch <id>                                snapshot the 16 entry bytes of <id> and forget the flushes recorded so far
//!   flushed <id>                              every entry byte that changed since `watch`, and every byte of the trampoline
//!                                             the entry now jumps to, must lie in a range passed to __clear_cache AFTER its
//!                                             last write (the range's content at flush time equals the current content);
//!                                             then re-arms the watch.  __clear_cache is interposed by this binary.
//!   refake <target> <n>                       install <n> redirects (to fresh near fakes) on <target> through the current
//!                                             injector, checking `flushed` after each
//!   thread_panic <target> <fake>              in a NEW thread: create an injector, install raw, call, panic!()
//!                                             (real unwinding with fakes installed); joined before the next op
use injectorpp::interface::injector::*;
use std::collections::HashMap;

const PAGE: usize = 4096;

unsafe fn map_at(hint: usize, len: usize, fixed: bool) -> *mut u8 {
    let mut flags = libc::MAP_PRIVATE | libc::MAP_ANONYMOUS;
    if fixed {
        flags |= libc::MAP_FIXED_NOREPLACE;
    }
    let p = libc::mmap(hint as *mut _, len, libc::PROT_READ | libc::PROT_WRITE, flags, -1, 0);
    if p == libc::MAP_FAILED {
        std::ptr::null_mut()
    } else {
        p as *mut u8
    }
}

/// place `mov eax, ret; ret` (padded with int3 to 16 bytes) at page offset `off` of a fresh r-x arena
unsafe fn make_echo(near: usize) -> Option<usize> {
    let f = make_func(None, 0x100, 0, Some(near))?;
    let page = f & !(PAGE - 1);
    if libc::mprotect(page as *mut _, PAGE, libc::PROT_READ | libc::PROT_WRITE) != 0 {
        return None;
    }
    let code: [u8; 6] = [0x48, 0x8B, 0x44, 0x24, 0x08, 0xC3];
    std::ptr::copy_nonoverlapping(code.as_ptr(), f as *mut u8, 6);
    libc::mprotect(page as *mut _, PAGE, libc::PROT_READ | libc::PROT_EXEC);
    Some(f)
}

unsafe fn call_stackarg(addr: usize, sentinel: u64) -> u64 {
    let r: u64;
    core::arch::asm!(
        "push {a8}", "push {a7}",
        "mov rdi, 1", "mov rsi, 2", "mov rdx, 3", "mov rcx, 4", "mov r8, 5", "mov r9, 6",
        "call rax",
        "add rsp, 16",
        a7 = in(reg) sentinel, a8 = in(reg) 0x8888_8888u64,
        inout("rax") addr => r,
        out("rdi") _, out("rsi") _, out("rdx") _, out("rcx") _, out("r8") _, out("r9") _, out("r10") _, out("r11") _,
        clobber_abi("sysv64"),
    );
    r
}

unsafe fn make_func(addr: Option<usize>, off: usize, ret: u32, near: Option<usize>) -> Option<usize> {
    let len = 3 * PAGE;
    let mut base = std::ptr::null_mut();
    if let Some(a) = addr {
        let want = (a & !(PAGE - 1)).wrapping_sub(PAGE);
        base = map_at(want, len, true);
    }
    if base.is_null() {
        if let Some(n) = near {
            base = map_at(n, len, false);
        } else {
            base = map_at(0, len, false);
        }
    }
    if base.is_null() {
        return None;
    }
    #[allow(static_mut_refs)]
    ARENAS.push((base as usize, len));
    let f = base as usize + PAGE + off;
    let code: [u8; 16] = {
        let mut c = [0xCCu8; 16];
        c[0] = 0xB8;
        c[1..5].copy_from_slice(&ret.to_le_bytes());
        c[5] = 0xC3;
        c
    };
    std::ptr::copy_nonoverlapping(code.as_ptr(), f as *mut u8, 16);
    if libc::mprotect(base as *mut _, len, libc::PROT_READ | libc::PROT_EXEC) != 0 {
        return None;
    }
    Some(f)
}

#[allow(static_mut_refs)]
static mut ARENAS: Vec<(usize, usize)> = Vec::new();

/// rwx anonymous mappings that are not (part of) one of our own code arenas, whose pages the
/// injector legitimately turns rwx when it patches a function in them
#[allow(static_mut_refs)]
fn rwx_anon_count() -> usize {
    std::fs::read_to_string("/proc/self/maps")
        .map(|s| {
            s.lines()
                .filter(|l| {
                    let mut it = l.split_whitespace();
                    let range = it.next().unwrap_or("0-0");
                    let perms = it.next().unwrap_or("");
                    let rest: Vec<&str> = it.collect();
                    let mut ab = range.split('-');
                    let a = usize::from_str_radix(ab.next().unwrap_or("0"), 16).unwrap_or(0);
                    let b = usize::from_str_radix(ab.next().unwrap_or("0"), 16).unwrap_or(0);
                    let ours = unsafe { ARENAS.iter().any(|&(s, l)| a < s + l && s < b) };
                    perms.starts_with("rwx") && rest.len() <= 3 && !ours
                })
                .count()
        })
        .unwrap_or(0)
}

unsafe fn call(addr: usize) -> u64 {
    let f: extern "C" fn() -> u64 = std::mem::transmute(addr);
    f()
}

/// call `addr` with sentinels in the callee-saved registers; returns (rax, rbx, rbp, r12, r13, r14, r15, rsp delta)
unsafe fn call_probe(addr: usize) -> [u64; 8] {
    let mut out = [0u64; 8];
    core::arch::asm!(
        "push rbx", "push rbp", "push r12", "push r13", "push r14", "push r15",
        "mov r10, rsp",
        "push r10", "push r11",            // r11 = out pointer, keep both across the call on the stack
        "mov rbx, 0xb0b0b0b000000001", "mov rbp, 0xb0b0b0b000000002", "mov r12, 0xb0b0b0b000000003",
        "mov r13, 0xb0b0b0b000000004", "mov r14, 0xb0b0b0b000000005", "mov r15, 0xb0b0b0b000000006",
        "mov rdi, 1", "mov rsi, 2", "mov rdx, 3", "mov rcx, 4", "mov r8, 5", "mov r9, 6",
        "call rax",
        "pop r11", "pop r10",
        "mov [r11], rax", "mov [r11 + 8], rbx", "mov [r11 + 16], rbp", "mov [r11 + 24], r12",
        "mov [r11 + 32], r13", "mov [r11 + 40], r14", "mov [r11 + 48], r15",
        "mov rax, rsp", "sub rax, r10", "mov [r11 + 56], rax",
        "pop r15", "pop r14", "pop r13", "pop r12", "pop rbp", "pop rbx",
        inout("rax") addr => _, in("r11") out.as_mut_ptr(),
        out("rdi") _, out("rsi") _, out("rdx") _, out("rcx") _, out("r8") _, out("r9") _, out("r10") _,
        clobber_abi("sysv64"),
    );
    out
}

/// (start, end, bytes at flush time)
#[allow(static_mut_refs)]
static mut FLUSHES: Vec<(usize, usize, Vec<u8>)> = Vec::new();

/// Interposes the platform primitive (libgcc's is a no-op on x86-64): records what the library asks to flush.
#[no_mangle]
#[allow(static_mut_refs)]
pub unsafe extern "C" fn __clear_cache(start: *mut u8, end: *mut u8) {
    let (s, e) = (start as usize, end as usize);
    let mut snap = Vec::new();
    if e > s && e - s <= 4096 {
        snap = std::slice::from_raw_parts(start as *const u8, e - s).to_vec();
    }
    FLUSHES.push((s, e, snap));
}

#[allow(static_mut_refs)]
unsafe fn covered(addr: usize) -> bool {
    let cur = *(addr as *const u8);
    FLUSHES.iter().any(|(s, e, snap)| addr >= *s && addr < *e && snap.get(addr - *s) == Some(&cur))
}

#[allow(static_mut_refs)]
unsafe fn check_flushed(f: usize, watch: &mut [u8; 16], ln: usize) -> bool {
    let mut now = [0u8; 16];
    std::ptr::copy_nonoverlapping(f as *const u8, now.as_mut_ptr(), 16);
    for k in 0..16 {
        if now[k] != watch[k] && !covered(f + k) {
            println!("MISMATCH at step {ln}: entry byte +{k} changed {:#04x} -> {:#04x} but no instruction-cache flush issued after the write covers it; flushed ranges relative to the function: {:?}",
                watch[k], now[k], FLUSHES.iter().filter(|(s, _, _)| s.abs_diff(f) < 64).map(|(s, e, _)| (*s as i64 - f as i64, *e as i64 - f as i64)).collect::<Vec<_>>());
            return false;
        }
    }
    if now[0] == 0xE9 {
        let rel = i32::from_le_bytes([now[1], now[2], now[3], now[4]]) as i64;
        let j = (f as i64 + 5 + rel) as usize;
        let n = if *(j as *const u8) == 0xE9 { 5 } else if *(j as *const u8) == 0x48 && *((j + 1) as *const u8) == 0xC7 { 8 } else { 12 };
        for k in 0..n {
            if !covered(j + k) {
                println!("MISMATCH at step {ln}: trampoline byte +{k} at {:#x} is not covered by a flush issued after it was written", j + k);
                return false;
            }
        }
    }
    *watch = now;
    FLUSHES.clear();
    true
}

fn unhex(h: &str) -> &'static str {
    let b: Vec<u8> = (0..h.len() / 2).map(|i| u8::from_str_radix(&h[2 * i..2 * i + 2], 16).unwrap_or(b'?')).collect();
    Box::leak(String::from_utf8_lossy(&b).into_owned().into_boxed_str())
}

#[inline(never)]
fn relife_target() -> bool {
    std::hint::black_box(false)
}
static mut RELIFE_N: usize = 1;
/// the SAME line of source builds the fake in every lifetime
fn relife_setup(inj: &mut InjectorPP) {
    inj.when_called(injectorpp::func!(relife_target, fn() -> bool))
        .will_execute(injectorpp::fake!(func_type: fn() -> bool, returns: true, times: unsafe { RELIFE_N }));
}

fn run(scn: &str) -> i32 {
    let mut funcs: HashMap<String, usize> = HashMap::new();
    let mut snaps: HashMap<String, [u8; 16]> = HashMap::new();
    let mut inj: Option<InjectorPP> = None;
    let mut watches: HashMap<String, [u8; 16]> = HashMap::new();
    let maps0 = rwx_anon_count();
    let mut first: Option<usize> = None;
    for (ln, line) in scn.lines().enumerate() {
        let w: Vec<&str> = line.split_whitespace().collect();
        if w.is_empty() || w[0].starts_with('#') {
            continue;
        }
        unsafe {
            match w[0] {
                "func" => {
                    let addr = if w[2] == "-" { None } else { usize::from_str_radix(w[2].trim_start_matches("0x"), 16).ok() };
                    let off: usize = w[3].parse().unwrap();
                    let ret: u32 = w[4].parse().unwrap();
                    match make_func(addr, off, ret, first.map(|f| f.wrapping_add(16 * PAGE))) {
                        Some(f) => {
                            if first.is_none() {
                                first = Some(f);
                            }
                            println!("step {ln}: func {} at {f:#x} (page offset {:#x})", w[1], f & (PAGE - 1));
                            let mut s = [0u8; 16];
                            std::ptr::copy_nonoverlapping(f as *const u8, s.as_mut_ptr(), 16);
                            snaps.insert(w[1].to_string(), s);
                            funcs.insert(w[1].to_string(), f);
                        }
                        None => {
                            println!("step {ln}: SETUP-FAILED cannot place func");
                            return 9;
                        }
                    }
                }
                "fakefn" => {
                    let ret: u32 = w[3].parse().unwrap();
                    let base = first.unwrap_or(0x10000000);
                    let near = if w[2] == "far" { base.wrapping_add(0x1_4000_0000) & 0x7fff_ffff_f000 } else { base.wrapping_add(64 * PAGE) };
                    match make_func(None, 0x100, ret, Some(near)) {
                        Some(f) => {
                            println!("step {ln}: fake {} at {f:#x} (distance from target 0: {:#x})", w[1], f.abs_diff(base));
                            funcs.insert(w[1].to_string(), f);
                        }
                        None => {
                            println!("step {ln}: SETUP-FAILED cannot place fake");
                            return 9;
                        }
                    }
                }
                "fakeecho" => {
                    let base = first.unwrap_or(0x10000000);
                    let near = if w[2] == "far" { base.wrapping_add(0x1_8000_0000) & 0x7fff_ffff_f000 } else { base.wrapping_add(96 * PAGE) };
                    match make_echo(near) {
                        Some(f) => {
                            println!("step {ln}: echo fake {} at {f:#x}", w[1]);
                            funcs.insert(w[1].to_string(), f);
                        }
                        None => {
                            println!("step {ln}: SETUP-FAILED cannot place echo fake");
                            return 9;
                        }
                    }
                }
                "callstack" => {
                    let sentinel: u64 = w[2].parse().unwrap();
                    let got = call_stackarg(funcs[w[1]], sentinel);
                    println!("step {ln}: callstack {} -> callee saw 7th argument = {got:#x} (caller passed {sentinel:#x})", w[1]);
                    if got != sentinel {
                        println!("MISMATCH at step {ln}: the fake received {got:#x} as its first stack-passed argument, the caller supplied {sentinel:#x}");
                        return 3;
                    }
                }
                "fakefn_rel" => {
                    let tgt = funcs[w[2]];
                    let disp: i64 = w[3].parse().unwrap();
                    let ret: u32 = w[4].parse().unwrap();
                    // trial installation: where does the allocator put the trampoline for this target?
                    let j = {
                        let mut probe = InjectorPP::new();
                        probe
                            .when_called(FuncPtr::new(tgt as *const (), "fn() -> bool"))
                            .will_return_boolean(true);
                        let mut e = [0u8; 5];
                        std::ptr::copy_nonoverlapping(tgt as *const u8, e.as_mut_ptr(), 5);
                        if e[0] != 0xE9 {
                            println!("step {ln}: SETUP-FAILED entry is not a rel32 jump");
                            return 9;
                        }
                        let rel = i32::from_le_bytes([e[1], e[2], e[3], e[4]]) as i64;
                        (tgt as i64 + 5 + rel) as usize
                    };
                    let want = (j as i64).wrapping_add(disp) as usize;
                    let page = want & !(PAGE - 1);
                    let base = map_at(page, 2 * PAGE, true);
                    if base.is_null() || base as usize != page {
                        println!("step {ln}: SETUP-FAILED cannot map the fake at {want:#x} (trampoline {j:#x} + {disp})");
                        return 9;
                    }
                    ARENAS.push((page, 2 * PAGE));
                    let code: [u8; 6] = [0xB8, ret as u8, (ret >> 8) as u8, (ret >> 16) as u8, (ret >> 24) as u8, 0xC3];
                    std::ptr::copy_nonoverlapping(code.as_ptr(), want as *mut u8, 6);
                    libc::mprotect(page as *mut _, 2 * PAGE, libc::PROT_READ | libc::PROT_EXEC);
                    println!("step {ln}: fake {} at {want:#x} = trampoline {j:#x} {disp:+}", w[1]);
                    funcs.insert(w[1].to_string(), want);
                }
                "new" => inj = Some(InjectorPP::new()),
                "drop" => {
                    inj = None;
                }
                "raw" => {
                    let t = funcs[w[1]];
                    let f = funcs[w[2]];
                    inj.as_mut()
                        .unwrap()
                        .when_called_unchecked(FuncPtr::new(t as *const (), ""))
                        .will_execute_raw_unchecked(FuncPtr::new(f as *const (), ""));
                    println!("step {ln}: installed raw {} -> {}", w[1], w[2]);
                }
                "bool" => {
                    let t = funcs[w[1]];
                    inj.as_mut()
                        .unwrap()
                        .when_called(FuncPtr::new(t as *const (), "fn() -> bool"))
                        .will_return_boolean(w[2] == "1");
                    println!("step {ln}: installed bool {} = {}", w[1], w[2]);
                }
                "call" => {
                    let exp: u64 = w[2].parse().unwrap();
                    let got = call(funcs[w[1]]);
                    println!("step {ln}: call {} -> {got} (expected {exp})", w[1]);
                    if got != exp {
                        println!("MISMATCH at step {ln}: call {} returned {got}, expected {exp}", w[1]);
                        return 3;
                    }
                }
                "watch" => {
                    let f = funcs[w[1]];
                    let mut s16 = [0u8; 16];
                    std::ptr::copy_nonoverlapping(f as *const u8, s16.as_mut_ptr(), 16);
                    watches.insert(w[1].to_string(), s16);
                    #[allow(static_mut_refs)]
                    FLUSHES.clear();
                }
                "flushed" => {
                    let f = funcs[w[1]];
                    let mut wt = watches.get(w[1]).copied().unwrap_or([0u8; 16]);
                    if !check_flushed(f, &mut wt, ln) {
                        return 3;
                    }
                    watches.insert(w[1].to_string(), wt);
                    println!("step {ln}: every modified byte of {} and of its trampoline was flushed after its last write", w[1]);
                }
                "refake" => {
                    let f = funcs[w[1]];
                    let n: usize = w[2].parse().unwrap();
                    let mut wt = watches.get(w[1]).copied().unwrap_or([0u8; 16]);
                    for i in 0..n {
                        let fk = match make_func(None, 0x100, 900 + i as u32, Some(f.wrapping_add((64 + 16 * i) * PAGE))) {
                            Some(a) => a,
                            None => {
                                println!("step {ln}: SETUP-FAILED cannot place fake #{i}");
                                return 9;
                            }
                        };
                        inj.as_mut().unwrap()
                            .when_called_unchecked(FuncPtr::new(f as *const (), ""))
                            .will_execute_raw_unchecked(FuncPtr::new(fk as *const (), ""));
                        if !check_flushed(f, &mut wt, ln) {
                            println!("  (at re-fake #{i} of the same function)");
                            return 3;
                        }
                        if call(f) != 900 + i as u64 {
                            println!("MISMATCH at step {ln}: re-fake #{i} is not in effect");
                            return 3;
                        }
                    }
                    watches.insert(w[1].to_string(), wt);
                    println!("step {ln}: {n} successive fakes of {}: all flushed, latest in effect", w[1]);
                }
                "boolsig" => {
                    let t = funcs[w[1]];
                    let sig = unhex(w[2]);
                    let r = std::panic::catch_unwind(std::panic::AssertUnwindSafe(|| {
                        let mut i2 = InjectorPP::new();
                        i2.when_called(FuncPtr::new(t as *const (), sig)).will_return_boolean(true);
                    }));
                    println!("step {ln}: will_return_boolean on signature {sig:?}: {}", if r.is_err() { "refused" } else { "ACCEPTED" });
                    if r.is_ok() {
                        println!("MISMATCH at step {ln}: forced boolean accepted for signature {sig:?}");
                        return 3;
                    }
                }
                "sigpair" => {
                    let (t, f) = (funcs[w[1]], funcs[w[2]]);
                    let (a, b) = (unhex(w[3]), unhex(w[4]));
                    let r = std::panic::catch_unwind(std::panic::AssertUnwindSafe(|| {
                        let mut i2 = InjectorPP::new();
                        i2.when_called(FuncPtr::new(t as *const (), a)).will_execute_raw(FuncPtr::new(f as *const (), b));
                    }));
                    println!("step {ln}: will_execute_raw target sig {a:?} replacement sig {b:?}: {}", if r.is_err() { "refused" } else { "accepted" });
                    if (a != b) == r.is_ok() {
                        println!("MISMATCH at step {ln}: signatures {a:?} / {b:?} were {}", if r.is_ok() { "accepted although they differ" } else { "refused although identical" });
                        return 3;
                    }
                }
                "relife" => {
                    let n: usize = w[1].parse().unwrap();
                    let k1: usize = w[2].parse().unwrap();
                    RELIFE_N = n;
                    let _ = std::panic::catch_unwind(std::panic::AssertUnwindSafe(|| {
                        let mut i1 = InjectorPP::new();
                        relife_setup(&mut i1);
                        for _ in 0..k1 {
                            let _ = std::panic::catch_unwind(|| relife_target());
                        }
                    }));
                    let r = std::panic::catch_unwind(std::panic::AssertUnwindSafe(|| {
                        let mut i2 = InjectorPP::new();
                        relife_setup(&mut i2);
                        for _ in 0..n {
                            assert!(relife_target(), "admitted call returned the wrong value");
                        }
                    }));
                    println!("step {ln}: second lifetime with exactly {n} call(s) after {k1} call(s) in the first: {}", if r.is_ok() { "quiet" } else { "PANICKED" });
                    if r.is_err() {
                        println!("MISMATCH at step {ln}: calls absorbed by the first installation counted toward the second");
                        return 3;
                    }
                }
                "rwpage" => {
                    // the function lives in a code arena that is writable as well as executable (a JIT region)
                    let f = funcs[w[1]];
                    let p0 = f & !(PAGE - 1);
                    let p1 = (f + 15) & !(PAGE - 1);
                    let rc = libc::mprotect(p0 as *mut libc::c_void, p1 - p0 + PAGE, libc::PROT_READ | libc::PROT_WRITE | libc::PROT_EXEC);
                    println!("step {ln}: page(s) of {} made rwx before any installation: rc={rc}", w[1]);
                    if rc != 0 {
                        return 9;
                    }
                }
                "permw" => {
                    // the page of the function's first byte is (still) writable
                    let f = funcs[w[1]];
                    let perms = std::fs::read_to_string("/proc/self/maps")
                        .ok()
                        .and_then(|s| {
                            s.lines().find_map(|l| {
                                let mut it = l.split_whitespace();
                                let mut ab = it.next()?.split('-');
                                let a = usize::from_str_radix(ab.next()?, 16).ok()?;
                                let b = usize::from_str_radix(ab.next()?, 16).ok()?;
                                if a <= f && f < b { Some(it.next()?.to_string()) } else { None }
                            })
                        })
                        .unwrap_or_default();
                    println!("step {ln}: page of {} has permissions {perms}", w[1]);
                    if !perms.contains('w') {
                        println!("MISMATCH at step {ln}: the page of {} was writable before the installation and is {perms} now (stores by its other occupants fault)", w[1]);
                        return 3;
                    }
                }
                "prevent" => {
                    // a fresh thread takes a Preventer and lets it go again, under a deadline: after any
                    // earlier lifetime (however it ended) the process-wide guard must be obtainable
                    let (tx, rx) = std::sync::mpsc::channel();
                    std::thread::spawn(move || {
                        let p = InjectorPP::prevent();
                        drop(p);
                        let _ = tx.send(());
                    });
                    match rx.recv_timeout(std::time::Duration::from_secs(8)) {
                        Ok(()) => println!("step {ln}: a fresh thread obtained and released a preventer"),
                        Err(_) => {
                            println!("MISMATCH at step {ln}: InjectorPP::prevent() did not return within 8 s (the process-wide guard is unusable)");
                            return 3;
                        }
                    }
                }
                "new_deadline" => {
                    let (tx, rx) = std::sync::mpsc::channel();
                    std::thread::spawn(move || {
                        let i = InjectorPP::new();
                        drop(i);
                        let _ = tx.send(());
                    });
                    match rx.recv_timeout(std::time::Duration::from_secs(8)) {
                        Ok(()) => println!("step {ln}: a fresh thread created and dropped an injector"),
                        Err(_) => {
                            println!("MISMATCH at step {ln}: InjectorPP::new() did not return within 8 s (the process-wide guard is unusable)");
                            return 3;
                        }
                    }
                }
                "thread_panic" => {
                    let t = funcs[w[1]];
                    let f = funcs[w[2]];
                    let h = std::thread::spawn(move || {
                        let mut inj = InjectorPP::new();
                        inj.when_called_unchecked(FuncPtr::new(t as *const (), ""))
                            .will_execute_raw_unchecked(FuncPtr::new(f as *const (), ""));
                        let _ = call(t);
                        panic!("injected panic while a fake is installed");
                    });
                    let r = h.join();
                    println!("step {ln}: thread panicked while holding an injector: join is_err={}", r.is_err());
                    if r.is_ok() {
                        println!("MISMATCH at step {ln}: the thread did not panic");
                        return 3;
                    }
                }
                "callregs" => {
                    let exp: u64 = w[2].parse().unwrap();
                    let r = call_probe(funcs[w[1]]);
                    println!("step {ln}: callregs {} -> rax={} rbx={:#x} rbp={:#x} r12={:#x} r13={:#x} r14={:#x} r15={:#x} rsp_delta={}", w[1], r[0], r[1], r[2], r[3], r[4], r[5], r[6], r[7] as i64);
                    let want = [0xb0b0b0b000000001u64, 0xb0b0b0b000000002, 0xb0b0b0b000000003, 0xb0b0b0b000000004, 0xb0b0b0b000000005, 0xb0b0b0b000000006];
                    if r[0] != exp {
                        println!("MISMATCH at step {ln}: returned {} expected {exp}", r[0]);
                        return 3;
                    }
                    for k in 0..6 {
                        if r[1 + k] != want[k] {
                            println!("MISMATCH at step {ln}: callee-saved register #{k} (rbx,rbp,r12..r15) is {:#x} after the faked call, the caller left {:#x}", r[1 + k], want[k]);
                            return 3;
                        }
                    }
                    if r[7] != 0 {
                        println!("MISMATCH at step {ln}: stack pointer moved by {}", r[7] as i64);
                        return 3;
                    }
                }
                "bytes" => {
                    let f = funcs[w[1]];
                    let mut s = [0u8; 16];
                    std::ptr::copy_nonoverlapping(f as *const u8, s.as_mut_ptr(), 16);
                    if s != snaps[w[1]] {
                        println!("MISMATCH at step {ln}: entry bytes of {} are {:02x?}, originally {:02x?}", w[1], s, snaps[w[1]]);
                        return 3;
                    }
                    println!("step {ln}: bytes of {} identical to the original", w[1]);
                }
                "maps" => {
                    let n = rwx_anon_count();
                    if n != maps0 {
                        println!("MISMATCH at step {ln}: {n} rwx anonymous mappings, {maps0} at start");
                        return 3;
                    }
                    println!("step {ln}: rwx anonymous mappings unchanged ({n})");
                }
                other => {
                    println!("step {ln}: unknown op {other}");
                    return 9;
                }
            }
        }
    }
    drop(inj);
    0
}

fn main() {
    let path = std::env::args().nth(1).expect("scenario file");
    let scn = std::fs::read_to_string(&path).expect("read scenario");
    unsafe {
        let pid = libc::fork();
        if pid == 0 {
            let r = std::panic::catch_unwind(|| run(&scn));
            let code = match r {
                Ok(c) => c,
                Err(_) => {
                    println!("PANIC in child");
                    5
                }
            };
            libc::_exit(code);
        }
        let mut st: i32 = 0;
        libc::waitpid(pid, &mut st, 0);
        if libc::WIFSIGNALED(st) {
            println!("CHILD-SIGNAL {}", libc::WTERMSIG(st));
            std::process::exit(4);
        }
        std::process::exit(libc::WEXITSTATUS(st));
    }
}
