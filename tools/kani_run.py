#!/usr/bin/env python3
"""Run Kani harnesses on a regenerated scratch crate and read the per-check verdicts.

Kani/CBMC is run with `--output-format old` (plain CBMC result lines; measured 3-4x faster than the
JSON path) and `--no-assertion-reach-checks` (vacuity is guarded by explicit covers and by
must-be-reachable panics instead).  One `cargo kani` process per harness, each with its own
target dir, so harnesses run in parallel.
"""
import os, re, subprocess, sys, time, json, shutil, tempfile, concurrent.futures, resource, signal

KANI_ENV = dict(os.environ, CARGO_NET_OFFLINE="true")
KANI_ENV.pop("RUSTUP_TOOLCHAIN", None)

RESULT_RE = re.compile(r'^\[(?P<name>[^\]]+)\] line (?P<line>\d+) (?P<desc>.*): (?P<status>SUCCESS|FAILURE)$', re.S)
TAG_RE = re.compile(r'VERIF\[([A-Z0-9,]+)\]:\s*(.*)', re.S)
CHECKID_RE = re.compile(r'\[?KANI_CHECK_ID_[^\s\]]+\]?\s*')


class Check:
    __slots__ = ("name", "func", "cls", "line", "desc", "status", "file")

    def __init__(self, name, line, desc, status, file):
        self.name = name
        parts = name.rsplit(".", 2)
        self.func = parts[0] if len(parts) == 3 else name
        self.cls = parts[1] if len(parts) == 3 else "?"
        self.line = int(line)
        d = CHECKID_RE.sub("", desc).strip()
        if len(d) >= 2 and d[0] == '"' and d[-1] == '"':
            d = d[1:-1]
        self.desc = d
        self.status = status
        self.file = file

    def tags(self):
        m = TAG_RE.match(self.desc)
        return m.group(1).split(",") if m else []

    def as_dict(self):
        return {"check": self.name, "line": self.line, "desc": self.desc, "status": self.status}


def parse_old_output(text):
    """-> (checks, stats)"""
    checks = []
    stats = {"symex_s": 0.0, "solver_s": 0.0, "vars": 0, "clauses": 0, "solver_calls": 0, "program_steps": 0}
    cur_file = None
    acc = None
    for raw in text.splitlines():
        line = raw.rstrip("\n")
        if acc is not None:
            acc += "\n" + line
            if line.endswith(": SUCCESS") or line.endswith(": FAILURE"):
                m = RESULT_RE.match(acc)
                if m:
                    checks.append(Check(m.group("name"), m.group("line"), m.group("desc"), m.group("status"), cur_file))
                acc = None
            elif acc.count("\n") > 12:
                acc = None
            continue
        if line.startswith("[") and "] line " in line:
            if line.endswith(": SUCCESS") or line.endswith(": FAILURE"):
                m = RESULT_RE.match(line)
                if m:
                    checks.append(Check(m.group("name"), m.group("line"), m.group("desc"), m.group("status"), cur_file))
            else:
                acc = line
            continue
        m = re.match(r'^(\S.*) function (\S.*)$', line)
        if m:
            cur_file = m.group(1)
            continue
        m = re.match(r'^Runtime Symex: ([0-9.e+-]+)s', line)
        if m:
            stats["symex_s"] += float(m.group(1))
            continue
        m = re.match(r'^Runtime Solver: ([0-9.e+-]+)s', line)
        if m:
            stats["solver_s"] += float(m.group(1))
            stats["solver_calls"] += 1
            continue
        m = re.match(r'^(\d+) variables, (\d+) clauses', line)
        if m:
            stats["vars"] = max(stats["vars"], int(m.group(1)))
            stats["clauses"] = max(stats["clauses"], int(m.group(2)))
            continue
        m = re.match(r'^size of program expression: (\d+) steps', line)
        if m:
            stats["program_steps"] = int(m.group(1))
    return checks, stats


def _limit_mem(gb):
    def f():
        os.setsid()
        if gb:
            b = int(gb * (1 << 30))
            resource.setrlimit(resource.RLIMIT_AS, (b, b))
    return f


def run_one(scratch, harness, tdir, timeout_s, mem_gb=12, extra=None, log_path=None, unwind=None, fq=None):
    """run one harness; returns dict(status, checks, stats, wall_s, log)"""
    cmd = ["cargo", "kani", "-Z", "stubbing", "--harness", fq or harness, "--exact",
           "--output-format", "old", "--no-assertion-reach-checks", "--target-dir", tdir]
    if unwind is not None:
        cmd += ["--default-unwind", str(unwind)]
    cmd += (extra or [])
    t0 = time.time()
    out = ""
    status = "ok"
    try:
        p = subprocess.Popen(cmd, cwd=scratch, env=KANI_ENV, stdout=subprocess.PIPE, stderr=subprocess.STDOUT,
                             text=True, preexec_fn=_limit_mem(mem_gb))
        try:
            out, _ = p.communicate(timeout=timeout_s)
        except subprocess.TimeoutExpired:
            try:
                os.killpg(p.pid, signal.SIGKILL)
            except ProcessLookupError:
                pass
            out, _ = p.communicate()
            status = "timeout"
    except Exception as e:  # pragma: no cover
        status = "error: %r" % (e,)
    wall = time.time() - t0
    if log_path:
        with open(log_path, "w") as fh:
            fh.write(out or "")
    checks, stats = parse_old_output(out or "")
    res = {"harness": harness, "status": status, "checks": checks, "stats": stats, "wall_s": round(wall, 1), "log": log_path}
    if status == "ok":
        if "VERIFICATION SUCCESSFUL" in out or "VERIFICATION FAILED" in out:
            pass
        elif re.search(r'error(\[E\d+\])?:', out) and "Compiling" in out and not checks:
            res["status"] = "compile_error"
        elif not checks:
            res["status"] = "no_result"
        if "out of memory" in out.lower() or "std::bad_alloc" in out:
            res["status"] = "oom"
    return res


def run_many(scratch, harnesses, jobs, timeout_s, log_dir, mem_gb=12):
    """harnesses: list of (name, unwind or None, extra args or None, fully qualified name)"""
    os.makedirs(log_dir, exist_ok=True)
    # resolve dependencies once so that parallel cargo processes do not race on Cargo.lock
    subprocess.run(["cargo", "generate-lockfile", "--offline"], cwd=scratch, env=KANI_ENV,
                   stdout=subprocess.DEVNULL, stderr=subprocess.DEVNULL)
    results = {}
    tbase = os.path.join(scratch, "targets")
    os.makedirs(tbase, exist_ok=True)

    def job(h):
        name, unwind, extra, fq = h
        tdir = os.path.join(tbase, name)
        try:
            return run_one(scratch, name, tdir, timeout_s, mem_gb, extra, os.path.join(log_dir, name + ".log"), unwind, fq)
        finally:
            shutil.rmtree(tdir, ignore_errors=True)

    with concurrent.futures.ThreadPoolExecutor(max_workers=max(1, jobs)) as ex:
        for r in ex.map(job, harnesses):
            results[r["harness"]] = r
    return results


PLAYBACK_HDR = re.compile(r"^/// Check for `(?P<cls>[^`]+)`: \"(?P<desc>.*)\"\s*$")


def concrete_playback(scratch, harness, tdir, timeout_s=1800, unwind=None, fq=None):
    """-> list of {cls, desc, values:[int], sizes:[int]} (one per failing check / satisfied cover)"""
    cmd = ["cargo", "kani", "-Z", "stubbing", "-Z", "concrete-playback", "--concrete-playback=print",
           "--harness", fq or harness, "--exact", "--no-assertion-reach-checks", "--target-dir", tdir]
    if unwind is not None:
        cmd += ["--default-unwind", str(unwind)]
    try:
        p = subprocess.run(cmd, cwd=scratch, env=KANI_ENV, stdout=subprocess.PIPE, stderr=subprocess.STDOUT,
                           text=True, timeout=timeout_s)
    except subprocess.TimeoutExpired:
        return []
    finally:
        shutil.rmtree(tdir, ignore_errors=True)
    tests = []
    cur = None
    for line in p.stdout.splitlines():
        m = PLAYBACK_HDR.match(line.strip())
        if m:
            d = m.group("desc").strip()
            if len(d) >= 2 and d[0] == '"' and d[-1] == '"':
                d = d[1:-1]
            cur = {"cls": m.group("cls"), "desc": d, "values": [], "sizes": []}
            tests.append(cur)
            continue
        if cur is not None:
            m = re.match(r"^\s*vec!\[([0-9, ]*)\],?\s*$", line)
            if m:
                bs = [int(x) for x in m.group(1).split(",") if x.strip()]
                cur["values"].append(int.from_bytes(bytes(bs), "little"))
                cur["sizes"].append(len(bs))
            elif line.strip().startswith("kani::concrete_playback_run"):
                cur = None
    return tests


def decode_cex(test, schema):
    """schema: list of (name, size_bytes, count).  Draw order as documented in each harness."""
    out = {}
    i = 0
    vals, sizes = test["values"], test["sizes"]
    for name, size, count in schema:
        got = []
        for _ in range(count):
            if i >= len(vals) or sizes[i] != size:
                out["_schema_mismatch_at"] = name
                return out
            got.append(vals[i])
            i += 1
        out[name] = got[0] if count == 1 else got
    out["_rest"] = vals[i:]
    return out


if __name__ == "__main__":
    checks, stats = parse_old_output(open(sys.argv[1]).read())
    print(stats)
    for c in checks:
        if c.status == "FAILURE" or c.desc.startswith("VERIF") or c.cls == "cover":
            print(c.status, c.cls, c.func, c.line, c.desc[:100])
