#!/bin/sh
# usage: tools/confirm_seed.sh <worktree> : confirm (a) 71 existing tests pass with the change,
# (b) the demonstration fails with the change, (c) passes without it.  Leaves the change applied.
d=$1
cd $d || exit 9
echo "== $d"
git diff --stat -- src | tail -1
mv tests/seeded_demo.rs /tmp/seeded_demo_$$.rs 2>/dev/null
out=$(cargo test --workspace --no-fail-fast --offline --tests 2>&1)
echo "$out" | grep -E "^test result" | awk '{p+=$4; f+=$6} END {print "existing suite with change: passed",p,"failed",f}'
mv /tmp/seeded_demo_$$.rs tests/seeded_demo.rs
cargo test --offline --test seeded_demo 2>&1 | grep -E "^test result|panicked|FAILED" | head -4 | sed 's/^/with change:    /'
git stash push -q -- src
cargo test --offline --test seeded_demo 2>&1 | grep -E "^test result|panicked|FAILED" | head -4 | sed 's/^/without change: /'
git stash pop -q
git diff --stat -- src | tail -1
