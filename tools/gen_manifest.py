#!/usr/bin/env python3
"""Write /verif/MANIFEST.json from tools/catalog.py (so the two cannot drift)."""
import json, os, sys
sys.path.insert(0, os.path.dirname(os.path.abspath(__file__)))
import catalog

ALL = ["C%02d" % i for i in range(1, 18)]
TECH = "solver-based bounded model checking of the real code: Kani 0.68 / CBMC 6.11 (CaDiCaL) over /repo's sources regenerated per run, symbolic inputs, one SAT query per assertion"

checks = []
for p in ALL:
    if p not in catalog.PROPERTIES:
        continue
    P = catalog.PROPERTIES[p]
    c = {
        "property_id": p,
        "quick_cmd": "./check %s quick" % p,
        "thorough_cmd": "./check %s thorough" % p,
        "evidence_file": "evidence/%s.json" % p,
        "replay_cmd_template": "./check %s --replay {path}" % p,
        "engine": "kani-cbmc",
        "level_claimed": {"category": "model_checking", "text": P.get("level_text", ""), "design_ref": P.get("design_ref", "DESIGN.md section 2 (%s)" % p)},
        "level_note": P.get("level_note", ""),
        "technique": P.get("technique", TECH),
    }
    checks.append(c)
na = []
for p in ALL:
    if p not in catalog.PROPERTIES:
        na.append({"property_id": p, "reason": catalog.NOT_APPLICABLE.get(p, "check not built yet (work in progress); see DESIGN.md section 2 for the planned encoding")})
m = {
    "version": 1,
    "setup_cmd": "./setup.sh",
    "hooks": {
        "guard": "cfg(kani) - applied only to the scratch copy that tools/regen.py regenerates from /repo/src on every run; /repo carries no hook commits",
        "enable": "tools/regen.py copies /repo/src, resolves target cfg keys for the variant, appends cfg(kani) read accessors and mounts /verif/harness as `mod verif`; `cargo kani -Z stubbing` then compiles the copy against /verif/shims/libc",
        "baseline_off_cmd": "cd /repo && cargo test --workspace --no-fail-fast --offline --tests",
        "source_commits": [],
        "add_only": True,
    },
    "engines": [
        {"name": "kani-cbmc", "path": "tools/kani_run.py", "serves_properties": [c["property_id"] for c in checks],
         "kind_free_text": "Kani 0.68.0 -> CBMC 6.11.0 -> CaDiCaL; harnesses in /verif/harness, simulated OS/memory in /verif/shims/libc, verdicts read per assertion by tools/driver.py; x86-64 counterexamples replayed natively by tools/replay_native"},
    ],
    "checks": checks,
    "not_applicable": na,
    "notes": "Exit 0 = held within the stated bounds; exit 1 + VIOLATION line = counterexample found and replayed; exit 2 = inconclusive (never a pass). Fixes of genuine defects are `fix:` commits in /repo and are listed in known_findings.json as fixed.",
}
json.dump(m, open(os.path.join(catalog.VERIF, "MANIFEST.json"), "w"), indent=1)
print("wrote MANIFEST.json: %d checks, %d not applicable" % (len(checks), len(na)))
