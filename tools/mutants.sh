#!/bin/sh
# usage: tools/mutants.sh <tier> "<patch-name>:<prop>" ...  applies /verif/mutants/<name>.patch in a scratch
# worktree (/tmp/seed/self) and runs the check against it
tier=$1; shift
cd /tmp/seed/self || exit 9
for pair in "$@"; do
  m=${pair%%:*}; p=${pair##*:}
  git checkout -q -- src; git apply /verif/mutants/$m.patch || { echo "== $m: patch does not apply"; continue; }
  s=$(date +%s); out=$(cd /verif && VERIF_REPO=/tmp/seed/self ./check $p $tier 2>&1); rc=$?; e=$(date +%s)
  echo "== mutant=$m prop=$p tier=$tier rc=$rc $((e-s))s"; echo "$out" | grep -v "^note:\|KNOWN-FINDING" | tail -3 | cut -c1-240
  git checkout -q -- src
done
