"""Build and run tools/replay_native against the real crate in REPO (x86-64 Linux only)."""
import os, shutil, subprocess
import regen

VERIF = regen.VERIF
ENV = dict(os.environ, CARGO_NET_OFFLINE="true")
ENV.pop("RUSTUP_TOOLCHAIN", None)


def build(work, name="replay_native"):
    """-> path of the binary (built once per work dir)"""
    d = os.path.join(work, name)
    binp = os.path.join(d, "target", "debug", name)
    if os.path.isfile(binp):
        return binp
    src = os.path.join(VERIF, "tools", name)
    shutil.rmtree(d, ignore_errors=True)
    os.makedirs(os.path.join(d, "src"))
    for f in os.listdir(os.path.join(src, "src")):
        shutil.copy(os.path.join(src, "src", f), os.path.join(d, "src", f))
    open(os.path.join(d, "Cargo.toml"), "w").write(open(os.path.join(src, "Cargo.toml.in")).read().replace("@REPO@", regen.REPO))
    lock = os.path.join(regen.REPO, "Cargo.lock")
    if os.path.isfile(lock):
        shutil.copy(lock, os.path.join(d, "Cargo.lock"))
    p = subprocess.run(["cargo", "build", "--offline", "-q"], cwd=d, env=ENV, stdout=subprocess.PIPE, stderr=subprocess.STDOUT, text=True)
    if p.returncode != 0 or not os.path.isfile(binp):
        raise RuntimeError("replay_native build failed:\n" + p.stdout[-3000:])
    return binp


def run_scenario(work, scenario, tag="s"):
    binp = build(work)
    sp = os.path.join(work, "scenario_%s.txt" % tag)
    open(sp, "w").write(scenario)
    p = subprocess.run([binp, sp], stdout=subprocess.PIPE, stderr=subprocess.STDOUT, text=True, timeout=120)
    meaning = {0: "all expectations met (does not reproduce)", 3: "expectation failed", 4: "child killed by a signal",
               5: "child panicked", 9: "scenario set-up failed"}.get(p.returncode, "exit %d" % p.returncode)
    return {"exit": p.returncode, "meaning": meaning, "output": p.stdout[-4000:], "scenario": scenario}


def verdict(r):
    """-> reproduced True/False/None"""
    if r["exit"] in (3, 4, 5):
        return True
    if r["exit"] == 0:
        return False
    return None
