#![allow(static_mut_refs, unused_unsafe)]
use crate::interface::injector::*;
use std::sync::atomic::{AtomicUsize, Ordering};
pub fn barrier() {}

// ---------- instrumentation of the atomic counter -------------
pub static mut N_FETCH_ADD: u32 = 0;
pub static mut N_OTHER: u32 = 0;
pub static mut ALLOW_COUNT: bool = true;
pub static mut ALLOW_EFFECT: bool = true;
pub static mut SHADOW: usize = 0; // the counter value lives here while stubbed

pub fn stub_fetch_add(_a: &AtomicUsize, v: usize, _o: Ordering) -> usize {
    unsafe {
        assert!(ALLOW_COUNT, "VERIF: a rejected call was counted");
        N_FETCH_ADD += 1;
        let p = SHADOW;
        SHADOW = p.wrapping_add(v);
        p
    }
}
pub fn stub_load(_a: &AtomicUsize, _o: Ordering) -> usize {
    unsafe {
        N_OTHER += 1;
        SHADOW
    }
}
pub fn stub_store(_a: &AtomicUsize, v: usize, _o: Ordering) {
    unsafe {
        N_OTHER += 1;
        SHADOW = v
    }
}

pub static mut N_SYM: usize = 0;
pub static mut X_SYM: i32 = 0;
fn effect(a: &mut i32) {
    unsafe {
        assert!(ALLOW_EFFECT, "VERIF: side effect on a refused call");
        *a = X_SYM;
    }
}

type F = fn(&mut i32, i32) -> i32;
fn build() -> (FuncPtr, CallCountVerifier) {
    crate::fake!(
        func_type: fn(a: &mut i32, b: i32) -> i32,
        when: b > 0,
        assign: { effect(a) },
        returns: *a + b,
        times: unsafe { N_SYM }
    )
}
unsafe fn as_fn(p: &FuncPtr) -> F {
    std::mem::transmute::<*const (), F>(p.__verif_raw())
}

#[kani::proof]
fn fake_accept() {
    unsafe {
        N_SYM = kani::any();
        X_SYM = kani::any();
        let c0: usize = kani::any();
        let (fp, ver) = build();
        let ctr = match &ver { CallCountVerifier::WithCount { counter, .. } => *counter, _ => unreachable!() };
        ctr.store(c0, Ordering::SeqCst);
        let b: i32 = kani::any();
        let mut a: i32 = kani::any();
        kani::assume(b > 0 && c0 < N_SYM);
        kani::assume((X_SYM as i64 + b as i64) <= i32::MAX as i64);
        let r = as_fn(&fp)(&mut a, b);
        assert!(a == X_SYM, "VERIF: assign ran");
        assert!(r == X_SYM + b, "VERIF: returns evaluated after assign with args in scope");
        assert!(
            ctr.load(Ordering::SeqCst) == c0 + 1,
            "VERIF: exactly one atomic RMW per admitted call"
        );
        core::mem::forget(ver);
    }
}
#[kani::proof]
fn fake_reject_when() {
    unsafe {
        N_SYM = kani::any();
        X_SYM = kani::any();
        let c0: usize = kani::any();
        ALLOW_COUNT = false;
        ALLOW_EFFECT = false;
        let (fp, ver) = build();
        let b: i32 = kani::any();
        let mut a: i32 = kani::any();
        kani::assume(b <= 0);
        let _r = as_fn(&fp)(&mut a, b);
        assert!(false, "VERIF: call failing `when` returned");
        core::mem::forget(ver);
    }
}
#[kani::proof]
fn fake_over_budget() {
    unsafe {
        N_SYM = kani::any();
        X_SYM = kani::any();
        SHADOW = kani::any();
        ALLOW_EFFECT = false;
        let c0 = SHADOW;
        let (fp, ver) = build();
        let b: i32 = kani::any();
        let mut a: i32 = kani::any();
        kani::assume(b > 0 && c0 >= N_SYM && c0 < usize::MAX);
        let _r = as_fn(&fp)(&mut a, b);
        assert!(false, "VERIF: over-budget call returned");
        core::mem::forget(ver);
    }
}

// ---------- scope-exit verifier with symbolic panicking() ----------
pub static mut PANICKING: bool = false;
pub fn stub_panicking() -> bool {
    unsafe { PANICKING }
}
static CNT: AtomicUsize = AtomicUsize::new(0);
#[kani::proof]
#[kani::stub(std::thread::panicking, stub_panicking)]
fn verifier_quiet() {
    unsafe {
        PANICKING = kani::any();
        let c: usize = kani::any();
        let e: usize = kani::any();
        kani::assume(PANICKING || c == e);
        CNT.store(c, Ordering::SeqCst);
        let v = CallCountVerifier::WithCount { counter: &CNT, expected: e };
        drop(v);
    }
}
#[kani::proof]
#[kani::stub(std::thread::panicking, stub_panicking)]
fn verifier_loud() {
    unsafe {
        PANICKING = false;
        let c: usize = kani::any();
        let e: usize = kani::any();
        kani::assume(c != e);
        CNT.store(c, Ordering::SeqCst);
        let v = CallCountVerifier::WithCount { counter: &CNT, expected: e };
        drop(v);
        assert!(false, "VERIF: count mismatch went unreported at scope exit");
    }
}

// ---------- C10 textual gate ----------
static mut SIG: [u8; 20] = [0; 20];
fn oracle_ret_is_bool(s: &[u8]) -> Option<bool> {
    // well-formed: prefix "fn(" balanced ")" [" -> " ret]; returns Some(ret == "bool")
    let mut i = 0;
    while i + 3 <= s.len() {
        if s[i] == b'f' && s[i + 1] == b'n' && s[i + 2] == b'(' {
            break;
        }
        if s[i] == b'(' || s[i] == b')' || s[i] == b'>' {
            return None;
        }
        i += 1;
    }
    if i + 3 > s.len() {
        return None;
    }
    let mut depth = 0i32;
    let mut j = i + 2;
    while j < s.len() {
        if s[j] == b'(' {
            depth += 1
        } else if s[j] == b')' {
            depth -= 1;
            if depth == 0 {
                break;
            }
        }
        j += 1;
    }
    if j >= s.len() {
        return None;
    }
    let rest = &s[j + 1..];
    if rest.is_empty() {
        return Some(false);
    }
    if rest.len() < 5 || &rest[..4] != b" -> " {
        return None;
    }
    Some(&rest[4..] == b"bool")
}
#[kani::proof]
#[kani::unwind(22)]
fn bool_gate() {
    unsafe {
        SIG = kani::any();
        let len: usize = kani::any();
        kani::assume(len <= 20);
        let mut i = 0;
        while i < 20 {
            kani::assume(SIG[i] >= 0x20 && SIG[i] < 0x7f);
            i += 1;
        }
        let wf = oracle_ret_is_bool(&SIG[..len]);
        kani::assume(wf == Some(false));
        let s: &'static str = std::str::from_utf8_unchecked(&SIG[..len]);
        let accepted = s.trim().ends_with("-> bool");
        assert!(!accepted, "VERIF: forced boolean accepted for a function that does not return bool");
    }
}
