#![allow(static_mut_refs)]
use crate::injector_core::common::*;
use crate::injector_core::patch_amd64::*;
use crate::injector_core::patch_trait::*;
use libc::sim;
use std::ptr::NonNull;

pub unsafe fn shim_add<T>(p: *mut T, n: usize) -> *mut T { p.wrapping_add(n) }
pub unsafe fn shim_clear_cache(start: *mut u8, end: *mut u8) { sim::flush(start as u64, end as u64); }

pub unsafe fn shim_copy<T>(src: *const T, dst: *mut T, count: usize) {
    let n = count * core::mem::size_of::<T>();
    let (s, d) = (src as *const u8, dst as *mut u8);
    let ssim = sim::is_sim(s as u64);
    let dsim = sim::is_sim(d as u64);
    if !ssim && !dsim { core::intrinsics::copy_nonoverlapping(s, d, n); return; }
    let mut tmp = [0u8; sim::RLEN];
    if ssim { sim::read_block(s as u64, &mut tmp, n); }
    else { assert!(n <= sim::RLEN, "VERIF: write longer than the 16-byte entry slot"); core::intrinsics::copy_nonoverlapping(s, tmp.as_mut_ptr(), n); }
    if dsim { sim::write_block(d as u64, &tmp, n); }
    else { core::intrinsics::copy_nonoverlapping(tmp.as_ptr(), d, n); }
}

// independent x86-64 decoder: follow jmp encoded in b, located at addr
fn follow(addr: u64, b: &[u8; 16]) -> Option<u64> {
    if b[0] == 0xE9 {
        let rel = [b[1], b[2], b[3], b[4]];
        Some((addr.wrapping_add(5)).wrapping_add(i32::from_le_bytes(rel) as i64 as u64))
    } else if b[0] == 0x48 && b[1] == 0xB8 && b[10] == 0xFF && b[11] == 0xE0 {
        let imm = [b[2], b[3], b[4], b[5], b[6], b[7], b[8], b[9]];
        Some(u64::from_le_bytes(imm))
    } else { None }
}

#[kani::proof]
#[kani::unwind(2)]
#[kani::stub(std::ptr::copy_nonoverlapping, shim_copy)]
#[kani::stub(crate::injector_core::linuxapi::__clear_cache, shim_clear_cache)]
#[kani::stub(<*mut u8>::add, shim_add)]
fn c01_probe() {
    unsafe {
        let f: u64 = kani::any();
        kani::assume(f >= 0x1000 && f < (1u64 << 46));
        sim::TEXT.base = f; sim::TEXT.live = true; sim::TEXT.bytes = kani::any();
        let orig = sim::TEXT.bytes;
        let t: u64 = kani::any();
        kani::assume(t != 0 && t < (1u64 << 47));
        let src = FuncPtrInternal::new(NonNull::new(f as *mut ()).unwrap());
        let tgt = FuncPtrInternal::new(NonNull::new(t as *mut ()).unwrap());
        let g = PatchAmd64::replace_function_with_other_function(src, tgt);
        let j = follow(f, &sim::TEXT.bytes);
        assert!(j == Some(sim::JIT.base), "VERIF: entry jumps to trampoline");
        let d = follow(sim::JIT.base, &sim::JIT.bytes);
        assert!(d == Some(t), "VERIF: trampoline jumps to fake");
        assert!(sim::TEXT.dirty == [false; 16] && sim::JIT.dirty == [false; 16], "VERIF: unflushed");
        drop(g);
        assert!(sim::TEXT.bytes == orig, "VERIF: restored");
        assert!(!sim::JIT.live, "VERIF: jit freed");
    }
}
