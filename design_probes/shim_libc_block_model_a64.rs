#![allow(non_camel_case_types, non_upper_case_globals, static_mut_refs)]
pub use core::ffi::c_void;
pub type c_int = i32;
pub type c_long = i64;
pub type size_t = usize;
pub type off_t = i64;
pub const _SC_PAGESIZE: c_int = 30;
pub const PROT_READ: c_int = 1;
pub const PROT_WRITE: c_int = 2;
pub const PROT_EXEC: c_int = 4;
pub const MAP_PRIVATE: c_int = 2;
pub const MAP_ANONYMOUS: c_int = 0x20;
pub const MAP_FAILED: *mut c_void = !0 as *mut c_void;

pub mod sim {
    pub const PAGE: u64 = 4096;
    pub const RLEN: usize = 24;
    #[derive(Clone, Copy)]
    pub struct Region { pub base: u64, pub live: bool, pub bytes: [u8; RLEN], pub dirty: [bool; RLEN] }
    pub static mut TEXT: Region = Region { base: 0, live: false, bytes: [0; RLEN], dirty: [false; RLEN] };
    pub static mut JIT: Region = Region { base: 0, live: false, bytes: [0; RLEN], dirty: [false; RLEN] };
    pub static mut WLO: u64 = 0; // writable text range [WLO, WHI)
    pub static mut WHI: u64 = 0;
    pub static mut COOP: bool = true;
    pub static mut MUNMAP_BAD: bool = false;

    pub unsafe fn is_sim(addr: u64) -> bool { addr < (1u64 << 47) }

    /// copy `n` bytes from tmp into simulated memory at `addr`
    pub unsafe fn write_block(addr: u64, tmp: &[u8; RLEN], n: usize) {
        assert!(n <= RLEN, "VERIF: write longer than the model slot");
        if TEXT.live && addr == TEXT.base {
            assert!(n == 0 || (addr >= WLO && addr + n as u64 <= WHI), "VERIF: write to non-writable text page");
            let mut r = TEXT;
            wr(&mut r, tmp, n);
            TEXT = r;
        } else if JIT.live && addr == JIT.base {
            let mut r = JIT;
            wr(&mut r, tmp, n);
            JIT = r;
        } else {
            panic!("VERIF: write outside designated entries");
        }
    }
    fn wr(r: &mut Region, tmp: &[u8; RLEN], n: usize) {
        macro_rules! b { ($($k:literal)*) => { $( if $k < n { r.bytes[$k] = tmp[$k]; r.dirty[$k] = true; } )* } }
        b!(0 1 2 3 4 5 6 7 8 9 10 11 12 13 14 15 16 17 18 19 20 21 22 23);
    }
    pub unsafe fn read_block(addr: u64, tmp: &mut [u8; RLEN], n: usize) {
        assert!(n <= RLEN, "VERIF: read longer than model");
        if TEXT.live && addr == TEXT.base { *tmp = TEXT.bytes; }
        else if JIT.live && addr == JIT.base { *tmp = JIT.bytes; }
        else { panic!("VERIF: read outside designated entries") }
    }
    pub unsafe fn flush(s: u64, e: u64) {
        let mut t = TEXT; fl(&mut t, s, e); TEXT = t;
        let mut j = JIT; fl(&mut j, s, e); JIT = j;
    }
    fn fl(r: &mut Region, s: u64, e: u64) {
        if !r.live { return; }
        // number of leading bytes of the region covered by [s,e) when s <= base
        if s <= r.base && e > r.base {
            let c = e - r.base;
            macro_rules! b { ($($k:literal)*) => { $( if ($k as u64) < c { r.dirty[$k] = false; } )* } }
            b!(0 1 2 3 4 5 6 7 8 9 10 11 12 13 14 15 16 17 18 19 20 21 22 23);
        }
    }
}

pub unsafe fn mmap(_addr: *mut c_void, _len: size_t, _prot: c_int, _flags: c_int, _fd: c_int, _off: off_t) -> *mut c_void {
    let r: u64 = kani::any();
    if !sim::COOP && r == u64::MAX { return MAP_FAILED; }
    kani::assume(r & (sim::PAGE-1) == 0 && r != 0 && r < (1u64<<47));
    kani::assume(!sim::JIT.live);
    if sim::COOP { kani::assume(r.abs_diff(sim::TEXT.base) <= 0x8000000); }
    kani::assume(r + sim::PAGE <= sim::TEXT.base || r >= sim::TEXT.base + sim::RLEN as u64);
    sim::JIT = sim::Region { base: r, live: true, bytes: [0; sim::RLEN], dirty: [false; sim::RLEN] };
    r as *mut c_void
}
pub unsafe fn munmap(addr: *mut c_void, _len: size_t) -> c_int {
    if sim::JIT.live && sim::JIT.base == addr as u64 { sim::JIT.live = false; 0 } else { sim::MUNMAP_BAD = true; -1 }
}
pub unsafe fn mprotect(addr: *mut c_void, len: size_t, _prot: c_int) -> c_int {
    let a = addr as u64;
    assert!(a & (sim::PAGE-1) == 0, "VERIF: mprotect unaligned");
    // model: union with previous range if adjacent/overlapping, else replace (only one target here)
    if sim::WHI == 0 { sim::WLO = a; sim::WHI = a + len as u64; }
    else { if a < sim::WLO { sim::WLO = a; } if a + len as u64 > sim::WHI { sim::WHI = a + len as u64; } }
    0
}
pub unsafe fn sysconf(_name: c_int) -> c_long { sim::PAGE as c_long }
