#![allow(static_mut_refs, unused_unsafe)]
use crate::injector_core::common::*;
use crate::injector_core::patch_amd64::*;
use crate::injector_core::patch_trait::*;
use libc::sim;
use libc::c_void;
use std::ptr::NonNull;
pub fn barrier() {}
pub unsafe fn shim_add<T>(p: *mut T, n: usize) -> *mut T { p.wrapping_add(n) }
pub unsafe fn shim_offset_from<T>(a: *mut T, b: *const T) -> isize { ((a as usize).wrapping_sub(b as usize) as isize) / (core::mem::size_of::<T>().max(1) as isize) }
pub unsafe fn shim_copy<T>(src: *const T, dst: *mut T, count: usize) {
    let n = count * core::mem::size_of::<T>();
    let (s, d) = (src as *const u8, dst as *mut u8);
    let ssim = sim::is_sim(s as u64);
    let dsim = sim::is_sim(d as u64);
    if !ssim && !dsim { core::intrinsics::copy_nonoverlapping(s, d, n); return; }
    let mut tmp = [0u8; sim::RLEN];
    if ssim { sim::read_block(s as u64, &mut tmp, n); }
    else { assert!(n <= sim::RLEN, "VERIF: write longer than the model slot"); core::intrinsics::copy_nonoverlapping(s, tmp.as_mut_ptr(), n); }
    if dsim { sim::write_block(d as u64, &tmp, n); }
    else { core::intrinsics::copy_nonoverlapping(tmp.as_ptr(), d, n); }
}
pub unsafe fn s_valloc(a: *mut c_void, len: usize, _t: u32, _p: u32) -> *mut c_void {
    let r = libc::mmap(a, len, 0, 0, -1, 0);
    if r == libc::MAP_FAILED { core::ptr::null_mut() } else { r }
}
pub unsafe fn s_vprotect(a: *mut c_void, len: usize, _p: u32, old: *mut u32) -> i32 { *old = 0x20; (libc::mprotect(a, len, 7) == 0) as i32 }
pub unsafe fn s_vfree(a: *mut c_void, _l: usize, _t: u32) -> i32 { (libc::munmap(a, 0) == 0) as i32 }
pub unsafe fn s_flush(_h: *mut c_void, a: *const c_void, n: usize) -> i32 { sim::flush(a as u64, a as u64 + n as u64); 1 }
pub unsafe fn s_proc() -> *mut c_void { 8 as *mut c_void }
pub unsafe fn s_page() -> usize { 4096 }

fn follow(addr: u64, b: &[u8; 16]) -> Option<u64> {
    if b[0] == 0xE9 {
        Some((addr.wrapping_add(5)).wrapping_add(i32::from_le_bytes([b[1], b[2], b[3], b[4]]) as i64 as u64))
    } else if b[0] == 0x48 && b[1] == 0xB8 && b[10] == 0xFF && b[11] == 0xE0 {
        Some(u64::from_le_bytes([b[2], b[3], b[4], b[5], b[6], b[7], b[8], b[9]]))
    } else { None }
}

#[kani::proof]
#[kani::unwind(2)]
#[kani::stub(std::ptr::copy_nonoverlapping, shim_copy)]
#[kani::stub(<*mut u8>::add, shim_add)]
#[kani::stub(<*mut u8>::offset_from, shim_offset_from)]
#[kani::stub(crate::injector_core::winapi::VirtualAlloc, s_valloc)]
#[kani::stub(crate::injector_core::winapi::VirtualProtect, s_vprotect)]
#[kani::stub(crate::injector_core::winapi::VirtualFree, s_vfree)]
#[kani::stub(crate::injector_core::winapi::FlushInstructionCache, s_flush)]
#[kani::stub(crate::injector_core::winapi::GetCurrentProcess, s_proc)]
#[kani::stub(crate::injector_core::winapi::get_page_size, s_page)]
fn win_probe() {
    unsafe {
        let f: u64 = kani::any();
        kani::assume(f >= (1u64 << 33) && f < (1u64 << 46) && (f & 4095) < 4000);
        sim::TEXT.base = f; sim::TEXT.live = true; sim::TEXT.bytes = kani::any();
        sim::COOP_RANGE = 0x8000_0000;
        let t: u64 = kani::any();
        kani::assume(t != 0 && t < (1u64 << 47));
        let src = FuncPtrInternal::new(NonNull::new(f as *mut ()).unwrap());
        let tgt = FuncPtrInternal::new(NonNull::new(t as *mut ()).unwrap());
        let g = PatchAmd64::replace_function_with_other_function(src, tgt);
        let j = follow(f, &sim::TEXT.bytes);
        assert!(j == Some(sim::JIT.base), "VERIF: entry jumps to trampoline");
        kani::cover!(sim::TEXT.bytes[0] == 0x48, "VERIF-COVER: 12-byte entry form");
        kani::cover!(sim::TEXT.bytes[0] == 0xE9, "VERIF-COVER: 5-byte entry form");
        let d = follow(sim::JIT.base, &sim::JIT.bytes);
        assert!(d == Some(t), "VERIF: trampoline jumps to fake");
        core::mem::forget(g);
    }
}
