use injectorpp::interface::injector::*;
fn main() {
    let _p = injectorpp::fake!(func_type: fn(a: i32) -> (), when: a > 0, times: 1);
}
