#![allow(static_mut_refs)]
use crate::injector_core::common::*;
use libc::sim;
use std::ptr::NonNull;
pub fn barrier() {}

fn alloc_case(page: u64) {
    unsafe {
        sim::PAGE = page;
        let f: u64 = kani::any();
        kani::assume(f >= 0x1000 && f < (1u64 << 46));
        sim::SRC = f;
        let fr: u64 = kani::any();
        kani::assume(fr & (page - 1) == 0 && fr != 0 && fr.abs_diff(f) <= libc::RANGE);
        sim::FREE = fr;
        let src = FuncPtrInternal::new(NonNull::new(f as *mut ()).unwrap());
        let p = allocate_jit_memory(&src, 12) as u64;
        assert!(p.abs_diff(f) <= libc::RANGE, "VERIF: trampoline within range");
        assert!(p == sim::LIVE && !sim::LEAKED && !sim::BAD_UNMAP, "VERIF: rejected placements given back");
    }
}
#[kani::proof]
#[kani::unwind(19)]
fn alloc_16m() { alloc_case(1 << 24) }
#[kani::proof]
#[kani::unwind(259)]
fn alloc_1m() { alloc_case(1 << 20) }
#[kani::proof]
#[kani::unwind(4099)]
fn alloc_64k() { alloc_case(1 << 16) }

#[kani::proof]
fn alloc_lc() { alloc_case(1 << 12) }
