#![allow(static_mut_refs)]
use crate::injector_core::common::*;
use crate::injector_core::patch_arm64::*;
use crate::injector_core::patch_trait::*;
use libc::sim;
use std::ptr::NonNull;

pub static mut BARRIERS: u32 = 0;
pub fn barrier() { unsafe { BARRIERS += 1; } }
pub unsafe fn shim_add<T>(p: *mut T, n: usize) -> *mut T { p.wrapping_add(n) }
pub unsafe fn shim_clear_cache(start: *mut u8, end: *mut u8) { sim::flush(start as u64, end as u64); }
pub unsafe fn shim_copy<T>(src: *const T, dst: *mut T, count: usize) {
    let n = count * core::mem::size_of::<T>();
    let (s, d) = (src as *const u8, dst as *mut u8);
    let ssim = sim::is_sim(s as u64);
    let dsim = sim::is_sim(d as u64);
    if !ssim && !dsim { core::intrinsics::copy_nonoverlapping(s, d, n); return; }
    let mut tmp = [0u8; sim::RLEN];
    if ssim { sim::read_block(s as u64, &mut tmp, n); }
    else { assert!(n <= sim::RLEN, "VERIF: write longer than the model slot"); core::intrinsics::copy_nonoverlapping(s, tmp.as_mut_ptr(), n); }
    if dsim { sim::write_block(d as u64, &tmp, n); }
    else { core::intrinsics::copy_nonoverlapping(tmp.as_ptr(), d, n); }
}

fn word(b: &[u8; 24], k: usize) -> u32 { u32::from_le_bytes([b[4*k], b[4*k+1], b[4*k+2], b[4*k+3]]) }

/// independent A64 interpreter for the handful of instructions allowed in a patch.
/// returns (destination pc, bitmask of registers written) or None if an unknown instruction is met
fn run_a64(base: u64, code: &[u8; 24], nwords: usize, regs: &mut [u64; 32]) -> Option<(u64, u32)> {
    let mut written: u32 = 0;
    let mut k = 0;
    while k < nwords {
        let w = word(code, k);
        let pc = base.wrapping_add(4 * k as u64);
        if w == 0xD503201F { /* nop */ }
        else if w & 0xFC00_0000 == 0x1400_0000 {
            let imm26 = w & 0x03FF_FFFF;
            let off = (((imm26 << 6) as i32) >> 6) as i64 * 4;
            return Some((pc.wrapping_add(off as u64), written));
        } else if w & 0xFF80_0000 == 0xD280_0000 { // movz x
            let hw = (w >> 21) & 3; let imm = ((w >> 5) & 0xFFFF) as u64; let rd = (w & 31) as usize;
            regs[rd] = imm << (16 * hw); written |= 1 << rd;
        } else if w & 0xFF80_0000 == 0xF280_0000 { // movk x
            let hw = (w >> 21) & 3; let imm = ((w >> 5) & 0xFFFF) as u64; let rd = (w & 31) as usize;
            regs[rd] = (regs[rd] & !(0xFFFFu64 << (16 * hw))) | (imm << (16 * hw)); written |= 1 << rd;
        } else if w & 0xFFFF_FC1F == 0xD61F_0000 { // br xn
            return Some((regs[((w >> 5) & 31) as usize], written));
        } else if w & 0xFFFF_FC1F == 0xD65F_0000 { // ret xn
            return Some((regs[((w >> 5) & 31) as usize], written));
        } else { return None; }
        k += 1;
    }
    None
}

#[kani::proof]
#[kani::unwind(66)]
#[kani::stub(std::ptr::copy_nonoverlapping, shim_copy)]
#[kani::stub(crate::injector_core::linuxapi::__clear_cache, shim_clear_cache)]
#[kani::stub(<*mut u8>::add, shim_add)]
fn c15_probe() {
    unsafe {
        let f: u64 = kani::any();
        kani::assume(f >= 0x1000 && f < (1u64 << 46) && f & 3 == 0);
        sim::TEXT.base = f; sim::TEXT.live = true; sim::TEXT.bytes = kani::any();
        let t: u64 = kani::any();
        kani::assume(t != 0);
        let src = FuncPtrInternal::new(NonNull::new(f as *mut ()).unwrap());
        let tgt = FuncPtrInternal::new(NonNull::new(t as *mut ()).unwrap());
        let g = PatchArm64::replace_function_with_other_function(src, tgt);
        let mut regs: [u64; 32] = kani::any();
        let r1 = run_a64(f, &sim::TEXT.bytes, 3, &mut regs);
        assert!(r1.is_some(), "VERIF: entry decodes");
        let (dst, wr) = r1.unwrap();
        assert!(dst == sim::JIT.base, "VERIF: entry branches to trampoline");
        assert!(wr == 0, "VERIF: entry writes no register");
        let r2 = run_a64(sim::JIT.base, &sim::JIT.bytes, 5, &mut regs);
        assert!(r2.is_some(), "VERIF: trampoline decodes");
        let (dst2, wr2) = r2.unwrap();
        assert!(dst2 == t, "VERIF: trampoline branches to fake");
        assert!(wr2 & !0x3FE00 == 0, "VERIF: only x9..x17 written");
        core::mem::forget(g);
    }
}
