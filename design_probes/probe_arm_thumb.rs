#![allow(static_mut_refs, unused_unsafe)]
use crate::injector_core::common::*;
use crate::injector_core::patch_arm::*;
use crate::injector_core::patch_trait::*;
use libc::sim;
use std::ptr::NonNull;

pub fn barrier() {}
pub unsafe fn shim_add<T>(p: *mut T, n: usize) -> *mut T {
    p.wrapping_add(n)
}
pub unsafe fn shim_clear_cache(start: *mut u8, end: *mut u8) {
    sim::flush(start as u64, end as u64);
}
pub unsafe fn shim_copy<T>(src: *const T, dst: *mut T, count: usize) {
    let n = count * core::mem::size_of::<T>();
    let (s, d) = (src as *const u8, dst as *mut u8);
    let ssim = sim::is_sim(s as u64);
    let dsim = sim::is_sim(d as u64);
    if !ssim && !dsim {
        core::intrinsics::copy_nonoverlapping(s, d, n);
        return;
    }
    let mut tmp = [0u8; sim::RLEN];
    if ssim {
        sim::read_block(s as u64, &mut tmp, n);
    } else {
        assert!(n <= sim::RLEN, "VERIF: write longer than the model slot");
        core::intrinsics::copy_nonoverlapping(s, tmp.as_mut_ptr(), n);
    }
    if dsim {
        sim::write_block(d as u64, &tmp, n);
    } else {
        core::intrinsics::copy_nonoverlapping(tmp.as_ptr(), d, n);
    }
}

fn w32(b: &[u8; 16], o: usize) -> u32 {
    u32::from_le_bytes([b[o], b[o + 1], b[o + 2], b[o + 3]])
}
fn h16(b: &[u8; 16], o: usize) -> u16 {
    u16::from_le_bytes([b[o], b[o + 1]])
}

/// independent A32 interpreter for: LDR Rt,[pc,#+/-imm12] ; BX Rm. returns (dest, written mask)
fn run_a32(base: u32, code: &[u8; 16]) -> Option<(u32, u32)> {
    let mut regs = [0u32; 16];
    let mut written = 0u32;
    let mut k = 0;
    while k < 3 {
        let w = w32(code, 4 * k);
        let pc = base.wrapping_add(4 * k as u32).wrapping_add(8);
        if w & 0xFF7F_0000 == 0xE51F_0000 {
            // LDR literal, cond AL
            let u = (w >> 23) & 1;
            let rt = ((w >> 12) & 15) as usize;
            let imm = w & 0xFFF;
            let a = if u == 1 { (pc & !3).wrapping_add(imm) } else { (pc & !3).wrapping_sub(imm) };
            let off = a.wrapping_sub(base);
            if off > 8 || off % 4 != 0 {
                return None;
            }
            regs[rt] = w32(code, off as usize);
            written |= 1 << rt;
        } else if w & 0xFFFF_FFF0 == 0xE12F_FF10 {
            return Some((regs[(w & 15) as usize], written));
        } else {
            return None;
        }
        k += 1;
    }
    None
}
/// independent T32 interpreter for: NOP ; LDR Rt,[pc,#imm8*4] (T1) ; BX Rm
fn run_t32(base: u32, code: &[u8; 16]) -> Option<(u32, u32)> {
    let mut regs = [0u32; 16];
    let mut written = 0u32;
    let mut o = 0usize;
    while o < 8 {
        let h = h16(code, o);
        let pc = base.wrapping_add(o as u32).wrapping_add(4);
        if h == 0x46C0 || h == 0xBF00 {
            // nop
        } else if h & 0xF800 == 0x4800 {
            let rt = ((h >> 8) & 7) as usize;
            let imm = ((h & 0xFF) as u32) * 4;
            let a = (pc & !3).wrapping_add(imm);
            let off = a.wrapping_sub(base);
            if off > 12 {
                return None;
            }
            regs[rt] = w32(code, off as usize);
            written |= 1 << rt;
        } else if h & 0xFF87 == 0x4700 {
            return Some((regs[((h >> 3) & 15) as usize], written));
        } else {
            return None;
        }
        o += 2;
    }
    None
}

#[kani::proof]
#[kani::unwind(6)]
#[kani::stub(std::ptr::copy_nonoverlapping, shim_copy)]
#[kani::stub(crate::injector_core::linuxapi::__clear_cache, shim_clear_cache)]
#[kani::stub(<*mut u8>::add, shim_add)]
fn c16_probe() {
    unsafe {
        let f: u32 = kani::any();
        kani::assume(f >= 0x1000 && f < 0xFFFF_F000 && (f & 4095) < 4000);
        let thumb = f & 1 == 1;
        kani::assume(thumb || f & 3 == 0);
        let entry = (f & !1) as u64;
        sim::TEXT.base = entry;
        sim::TEXT.live = true;
        sim::TEXT.bytes = kani::any();
        let t: u32 = kani::any();
        kani::assume(t != 0);
        let src = FuncPtrInternal::new(NonNull::new(f as usize as *mut ()).unwrap());
        let tgt = FuncPtrInternal::new(NonNull::new(t as usize as *mut ()).unwrap());
        let g = PatchArm::replace_function_with_other_function(src, tgt);
        let r = if thumb { run_t32(entry as u32, &sim::TEXT.bytes) } else { run_a32(entry as u32, &sim::TEXT.bytes) };
        assert!(r.is_some(), "VERIF: entry decodes");
        let (dst, wr) = r.unwrap();
        assert!(dst == t, "VERIF: branch operand is the fake address");
        // AAPCS32: r4-r11 and sp must be preserved by a callee
        assert!(wr & 0x2FF0 == 0, "VERIF: callee-saved register clobbered");
        core::mem::forget(g);
    }
}
