#!/usr/bin/env python3
"""prototype: copy /repo/src to DEST/src resolving target_arch/target_os cfg keys to constants"""
import sys, os, re, shutil
src, dest, arch, osname = sys.argv[1:5]
shutil.rmtree(os.path.join(dest,'src'), ignore_errors=True)
shutil.copytree(src, os.path.join(dest,'src'))
n=0
for root,_,files in os.walk(os.path.join(dest,'src')):
    for f in files:
        if not f.endswith('.rs'): continue
        p=os.path.join(root,f); s=open(p).read(); o=s
        def rep(m):
            key,val=m.group(1),m.group(2)
            want = arch if key=='target_arch' else osname
            return 'all()' if val==want else 'any()'
        s=re.sub(r'(target_arch|target_os)\s*=\s*"([a-z0-9_]+)"', rep, s)
        s=s.replace('core::arch::asm!(','verif_asm!(')
        if s!=o: n+=1; open(p,'w').write(s)
lib=os.path.join(dest,'src','lib.rs')
s=open(lib).read()
pre='''#![cfg_attr(kani, feature(core_intrinsics))]
#![cfg_attr(kani, allow(internal_features))]
'''
s=pre+s.replace('mod injector_core;','''#[allow(unused_macros)]
macro_rules! verif_asm { ($($t:tt)*) => { crate::verif::barrier() } }
mod injector_core;''')+'\n#[cfg(kani)] mod verif;\n'
open(lib,'w').write(s)
print("rewrote",n,"files")
