//! x86-64 Windows variant: the REAL allocate_jit_memory_windows retry loop (VirtualAlloc at a hinted
//! address fails when the region is taken; +-2 GiB window) together with the real entry patch.
//! Page size scaled to 256 MiB so that the whole window (17 hints) is inside the unwinding bound.
use crate::injector_core::common::*;
use crate::injector_core::patch_amd64::*;
use crate::injector_core::patch_trait::*;
use crate::verif::alloc_common::*;
use crate::verif::rt::*;
use crate::verif::win_core::*;
use crate::verif::x64dec::*;
use libc::sim;
use std::ptr::NonNull;

pub unsafe fn s_page_scaled() -> usize {
    sim::S.PAGE as usize
}

#[kani::proof]
#[kani::unwind(26)]
#[kani::stub(std::ptr::copy_nonoverlapping, shim_copy)]
#[kani::stub(<*mut u8>::add, shim_add)]
#[kani::stub(<*mut u8>::offset_from, shim_offset_from)]
#[kani::stub(crate::injector_core::winapi::VirtualAlloc, s_valloc)]
#[kani::stub(crate::injector_core::winapi::VirtualProtect, s_vprotect)]
#[kani::stub(crate::injector_core::winapi::VirtualFree, s_vfree)]
#[kani::stub(crate::injector_core::winapi::FlushInstructionCache, s_flush)]
#[kani::stub(crate::injector_core::winapi::GetCurrentProcess, s_proc)]
#[kani::stub(crate::injector_core::winapi::get_page_size, s_page_scaled)]
fn win_alloc_layout_256m() {
    unsafe {
        let (f, _orig) = setup_layout(1u64 << 28, 1, 1);
        // VirtualAlloc at an address never relocates: a taken hint fails
        sim::S.LAYOUT_FALLBACK = 0;
        kani::assume(f >= (1u64 << 33));
        let src = FuncPtrInternal::new(NonNull::new(f as *mut ()).unwrap());
        let g = PatchAmd64::replace_function_return_boolean(src, kani::any());
        assert!(sim::S.LAYOUT != 1, "VERIF[C11]: the installation returned although no page within reach was free");
        assert!(sim::live_jits() == 1, "VERIF[C11,C12]: after a successful installation the live mappings are not exactly the accepted trampoline");
        let j = match sim::find_live() {
            Some(i) => sim::JIT[i].base,
            None => 0,
        };
        let mut c = any_cpu(f);
        run_one_block(&mut c);
        assert!(!c.bad && !c.returned && c.pc == j, "VERIF[C11,C01]: the branch written into the function does not land on the trampoline that was accepted");
        kani::cover!(sim::S.LAYOUT == 2 && sim::S.LAYOUT_FREE > f, "COVER: the free page is above the function");
        kani::cover!(sim::S.LAYOUT == 2 && sim::S.LAYOUT_FREE < f, "COVER: the free page is below the function");
        kani::cover!(sim::S.LAYOUT == 0, "COVER: empty neighbourhood");
        kani::cover!(sim::ENT[0].bytes[0] == 0x48, "COVER: 12-byte entry form");
        core::mem::forget(g);
    }
}
