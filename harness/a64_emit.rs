//! AArch64 bit-level emitters against the encoding tables, for ALL inputs (pure functions).
use crate::injector_core::arm64_codegenerator::*;
use crate::injector_core::utils::*;

fn bits16(v: u16) -> [bool; 16] {
    let mut b = [false; 16];
    let mut i = 0;
    while i < 16 {
        b[i] = (v >> i) & 1 != 0;
        i += 1;
    }
    b
}

#[kani::proof]
#[kani::unwind(66)]
fn a64_emit_bits_roundtrip() {
    let n: u64 = kani::any();
    let b = u64_to_bits(n);
    let mut back: u64 = 0;
    let mut i = 0;
    while i < 64 {
        if b[i] {
            back |= 1u64 << i;
        }
        i += 1;
    }
    assert!(back == n, "VERIF[C15]: u64_to_bits is not the little-endian bit decomposition");
    let m: u8 = kani::any();
    let b5 = u8_to_bits::<5>(m);
    let b2 = u8_to_bits::<2>(m);
    let mut v5 = 0u8;
    let mut i = 0;
    while i < 5 {
        if b5[i] {
            v5 |= 1 << i;
        }
        i += 1;
    }
    assert!(v5 == m & 31, "VERIF[C15]: u8_to_bits::<5> is not the low five bits");
    assert!(b2[0] == (m & 1 != 0) && b2[1] == (m & 2 != 0), "VERIF[C15]: u8_to_bits::<2> is not the low two bits");
    let w: u32 = kani::any();
    let mut wb = [false; 32];
    let mut i = 0;
    while i < 32 {
        wb[i] = (w >> i) & 1 != 0;
        i += 1;
    }
    assert!(bool_array_to_u32(wb) == w, "VERIF[C15]: bool_array_to_u32 does not reassemble the word");
}

#[kani::proof]
#[kani::unwind(34)]
fn a64_emit_mov_tables() {
    let imm: u16 = kani::any();
    let hw: u8 = kani::any();
    let rd: u8 = kani::any();
    let sf: bool = kani::any();
    kani::assume(hw < 4 && rd < 32);
    let z = bool_array_to_u32(emit_movz(bits16(imm), sf, u8_to_bits::<2>(hw), u8_to_bits::<5>(rd)));
    let k = bool_array_to_u32(emit_movk(bits16(imm), sf, u8_to_bits::<2>(hw), u8_to_bits::<5>(rd)));
    let common = ((sf as u32) << 31) | ((hw as u32) << 21) | ((imm as u32) << 5) | rd as u32;
    assert!(z == 0x5280_0000 | common, "VERIF[C15]: emit_movz differs from the MOVZ encoding (sf 10 100101 hw imm16 Rd)");
    assert!(k == 0x7280_0000 | common, "VERIF[C15]: emit_movk differs from the MOVK encoding (sf 11 100101 hw imm16 Rd)");
}

#[kani::proof]
#[kani::unwind(66)]
fn a64_emit_mov_from_address() {
    let addr: u64 = kani::any();
    let hw: u8 = kani::any();
    let rd: u8 = kani::any();
    kani::assume(hw < 4 && rd < 32);
    let start = 16 * hw as usize;
    let z = bool_array_to_u32(emit_movz_from_address(addr, start, true, u8_to_bits::<2>(hw), u8_to_bits::<5>(rd)));
    let k = bool_array_to_u32(emit_movk_from_address(addr, start, true, u8_to_bits::<2>(hw), u8_to_bits::<5>(rd)));
    let chunk = ((addr >> (16 * hw)) & 0xFFFF) as u32;
    let common = (1u32 << 31) | ((hw as u32) << 21) | (chunk << 5) | rd as u32;
    assert!(z == 0x5280_0000 | common, "VERIF[C15]: emit_movz_from_address does not carry the addressed 16-bit chunk");
    assert!(k == 0x7280_0000 | common, "VERIF[C15]: emit_movk_from_address does not carry the addressed 16-bit chunk");
}

#[kani::proof]
#[kani::unwind(34)]
fn a64_emit_branch_tables() {
    let rn: u8 = kani::any();
    kani::assume(rn < 32);
    let br = bool_array_to_u32(emit_br(u8_to_bits::<5>(rn)));
    let ret = bool_array_to_u32(emit_ret(&u8_to_bits::<5>(rn)));
    assert!(br == 0xD61F_0000 | ((rn as u32) << 5), "VERIF[C15]: emit_br differs from the BR encoding");
    assert!(ret == 0xD65F_0000 | ((rn as u32) << 5), "VERIF[C15]: emit_ret differs from the RET encoding");
    assert!(bool_array_to_u32(emit_ret_x30()) == 0xD65F_03C0, "VERIF[C15]: emit_ret_x30 is not RET x30");
}
