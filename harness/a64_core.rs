//! AArch64 Linux (variant a64-linux): one installation at injector_core level.
//! The trampoline address is chosen by a contract stub of the allocator (any page-aligned address
//! with displacement in [-128 MiB, +128 MiB)); the real allocator + entry branch are checked
//! together in a64_alloc.rs (C11).  Draw order: f, entry bytes[24], t | value, (model) j.
use crate::injector_core::common::*;
use crate::injector_core::patch_arm64::*;
use crate::injector_core::patch_trait::*;
use crate::verif::a64dec::*;
use crate::verif::rt::*;
use libc::sim;
use std::ptr::NonNull;

unsafe fn fp(a: u64) -> FuncPtrInternal {
    FuncPtrInternal::new(NonNull::new(a as *mut ()).unwrap())
}

/// contract stub: a fresh page-aligned mapping with displacement in [lo, hi] words-aligned
pub fn alloc_in_branch_range(src: &FuncPtrInternal, code_size: usize) -> *mut u8 {
    unsafe {
        let f = src.as_ptr() as u64;
        sim::S.MODE = 0;
        sim::S.COOP_CENTER = f;
        sim::S.COOP_RANGE = 0x800_0000;
        let p = libc::mmap(core::ptr::null_mut(), code_size, libc::PROT_READ | libc::PROT_WRITE | libc::PROT_EXEC,
                           libc::MAP_PRIVATE | libc::MAP_ANONYMOUS, -1, 0) as u64;
        // B imm26 reaches [-2^27, 2^27)
        kani::assume(p < f || p - f < 0x800_0000);
        p as *mut u8
    }
}

/// stub used to show the refusal: displacement anywhere in +-(128 MiB + 16 MiB)
pub fn alloc_maybe_out_of_range(src: &FuncPtrInternal, code_size: usize) -> *mut u8 {
    unsafe {
        let f = src.as_ptr() as u64;
        sim::S.MODE = 0;
        sim::S.COOP_CENTER = f;
        sim::S.COOP_RANGE = 0x900_0000;
        libc::mmap(core::ptr::null_mut(), code_size, libc::PROT_READ | libc::PROT_WRITE | libc::PROT_EXEC,
                   libc::MAP_PRIVATE | libc::MAP_ANONYMOUS, -1, 0) as *mut u8
    }
}

unsafe fn setup() -> (u64, [u8; sim::RLEN]) {
    sim::reset();
    sim::S.NE_ACT = 1;
    sim::S.NJ_ACT = 1;
    sim::S.PAGE = 4096;
    let f = any_entry_addr();
    kani::assume(f & 3 == 0);
    let bytes: [u8; sim::RLEN] = kani::any();
    sim::register_entry(0, f, 16, bytes);
    (f, bytes)
}

unsafe fn after_drop(orig: &[u8; sim::RLEN]) {
    let mut k = 0;
    while k < 16 {
        assert!(sim::ENT[0].bytes[k] == orig[k], "VERIF[C02]: entry bytes differ from the original after drop");
        k += 1;
    }
    assert!(sim::all_clean(), "VERIF[C17]: restored bytes are not covered by a later flush");
    assert!(sim::S.BARRIER_SINCE_FLUSH && sim::S.N_BARRIER > 0, "VERIF[C17]: no dsb/isb barrier after the last flush before returning from drop");
    assert!(sim::live_jits() == 0 && sim::S.N_MUNMAP == 1, "VERIF[C12]: trampoline not released exactly once on drop");
}

#[kani::proof]
#[kani::unwind(66)]
#[kani::stub(std::ptr::copy_nonoverlapping, shim_copy)]
#[kani::stub(crate::injector_core::linuxapi::__clear_cache, shim_clear_cache)]
#[kani::stub(<*mut u8>::add, shim_add)]
#[kani::stub(crate::injector_core::common::allocate_jit_memory, alloc_in_branch_range)]
fn a64_core_redirect() {
    unsafe {
        let (f, orig) = setup();
        let t: u64 = kani::any();
        kani::assume(t != 0);
        kani::assume(t.abs_diff(f) >= sim::RLEN as u64);
        let g = PatchArm64::replace_function_with_other_function(fp(f), fp(t));
        kani::assume(!inside_some_region(t));
        let j = sim::JIT[0].base;
        kani::assume(t != j);

        kani::cover!(j > f, "COVER: trampoline above the target");
        kani::cover!(j < f, "COVER: trampoline below the target");
        kani::cover!(j.wrapping_sub(f) == 0x7FF_F000, "COVER: largest forward displacement");
        kani::cover!(f.wrapping_sub(j) == 0x800_0000, "COVER: largest backward displacement");
        kani::cover!(t >= (1u64 << 48), "COVER: fake address uses the top 16-bit chunk");
        let c0 = any_a64(f);
        let mut c = c0;
        run(&mut c, 1);
        assert!(!c.bad, "VERIF[C15]: the bytes at the function entry do not decode to an unconditional branch");
        assert!(c.pc == j && !c.returned, "VERIF[C15]: the entry branch does not land exactly on the trampoline");
        assert!(c.written == 0, "VERIF[C15,C13]: the entry sequence writes a register");
        run(&mut c, 2);
        assert!(!c.bad, "VERIF[C15]: the trampoline does not decode to address-building moves followed by a register branch");
        assert!(c.pc == t && !c.returned, "VERIF[C15]: the trampoline does not branch to exactly the fake's 64-bit address");
        assert!(c.written & !0x3FE00 == 0, "VERIF[C15,C13]: a register outside x9..x17 is written on the way to the fake");
        let mut i = 0;
        while i < 31 {
            if i < 9 || i > 17 {
                assert!(c.x[i] == c0.x[i], "VERIF[C13]: an argument/callee-saved register differs on arrival at the fake");
            }
            i += 1;
        }
        assert!(c.sp == c0.sp && !c.wrote_mem, "VERIF[C13]: stack pointer changed or memory written on the way to the fake");
        assert!(!c.fetched_dirty && sim::all_clean(), "VERIF[C17]: bytes written during installation are not covered by a later flush");
        assert!(sim::S.BARRIER_SINCE_FLUSH && sim::S.N_BARRIER > 0, "VERIF[C17]: no dsb/isb barrier after the last flush before returning from the installation");
        let mut k = 12;
        while k < 16 {
            assert!(sim::ENT[0].bytes[k] == orig[k], "VERIF[C03]: byte behind the entry patch changed");
            k += 1;
        }
        assert!(sim::live_jits() == 1, "VERIF[C12]: live trampolines differ from live guards after install");
        drop(g);
        after_drop(&orig);
    }
}

#[kani::proof]
#[kani::unwind(34)]
#[kani::stub(std::ptr::copy_nonoverlapping, shim_copy)]
#[kani::stub(crate::injector_core::linuxapi::__clear_cache, shim_clear_cache)]
#[kani::stub(<*mut u8>::add, shim_add)]
#[kani::stub(crate::injector_core::common::allocate_jit_memory, alloc_in_branch_range)]
fn a64_core_boolean() {
    unsafe {
        let (f, orig) = setup();
        let v: bool = kani::any();
        let g = PatchArm64::replace_function_return_boolean(fp(f), v);
        let j = sim::JIT[0].base;
        let c0 = any_a64(f);
        let lr = c0.x[30];
        kani::assume(!inside_some_region(lr) && sim::find_jit(lr).is_none() && sim::find_entry(lr).is_none());
        let mut c = c0;
        run(&mut c, 1);
        assert!(!c.bad && c.pc == j && c.written == 0, "VERIF[C15]: the entry branch does not land exactly on the trampoline");
        run(&mut c, 2);
        assert!(!c.bad, "VERIF[C15]: the boolean trampoline does not decode");
        assert!(c.returned && c.pc == lr, "VERIF[C10]: the stub does not return to the caller");
        assert!(c.x[0] & 0xFF == v as u64, "VERIF[C10]: w0 differs from the requested boolean");
        assert!(c.written & !1 == 0, "VERIF[C10,C15]: the boolean stub writes a register other than x0");
        assert!(c.sp == c0.sp && !c.wrote_mem, "VERIF[C10]: stack pointer not as after a normal return");
        assert!(!c.fetched_dirty && sim::all_clean(), "VERIF[C17]: bytes written during installation are not covered by a later flush");
        assert!(sim::S.BARRIER_SINCE_FLUSH && sim::S.N_BARRIER > 0, "VERIF[C17]: no dsb/isb barrier after the last flush before returning from the installation");
        kani::cover!(v, "COVER: true");
        kani::cover!(!v, "COVER: false");
        drop(g);
        after_drop(&orig);
    }
}

/// displacement possibly outside the reach of B: the installation must refuse, not wrap
#[kani::proof]
#[kani::unwind(34)]
#[kani::stub(std::ptr::copy_nonoverlapping, shim_copy)]
#[kani::stub(crate::injector_core::linuxapi::__clear_cache, shim_clear_cache)]
#[kani::stub(<*mut u8>::add, shim_add)]
#[kani::stub(crate::injector_core::common::allocate_jit_memory, alloc_maybe_out_of_range)]
fn a64_core_refusal() {
    unsafe {
        let (f, orig) = setup();
        let v: bool = kani::any();
        let g = PatchArm64::replace_function_return_boolean(fp(f), v);
        // reaching this point means the installation accepted the placement
        let j = sim::JIT[0].base;
        let disp = j.wrapping_sub(f) as i64;
        assert!(disp >= -0x800_0000 && disp < 0x800_0000, "VERIF[C15,C11]: an entry displacement outside [-128 MiB, +128 MiB) was accepted instead of refused");
        let mut c = any_a64(f);
        run(&mut c, 1);
        assert!(!c.bad && c.pc == j, "VERIF[C15,C11]: the entry branch does not land exactly on the trampoline (wrapped displacement)");
        kani::cover!(disp == 0x7FF_F000, "COVER: largest encodable forward displacement accepted");
        kani::cover!(disp == -0x800_0000, "COVER: largest encodable backward displacement accepted");
        core::mem::forget(g);
    }
}
