//! Independent A64 interpreter for the instructions a patch may consist of, written from the
//! Arm ARM (DDI 0487) encodings:
//!   B imm26        000101 imm26
//!   MOVZ Xd        1 10 100101 hw imm16 Rd      (sf=1)      MOVZ Wd: sf=0, hw<2
//!   MOVK Xd        1 11 100101 hw imm16 Rd
//!   BR Xn          1101011 0000 11111 000000 Rn 00000
//!   RET Xn         1101011 0010 11111 000000 Rn 00000
//!   NOP            d503201f
//!   ADRP Xd        1 immlo 10000 immhi Rd
//!   ADD Xd,Xn,#imm 1 0 0 100010 sh imm12 Rn Rd   (sh=0)
//! Anything else => `bad`.
use libc::sim;

#[derive(Clone, Copy)]
pub struct A64 {
    /// x0..x30; index 31 unused
    pub x: [u64; 32],
    pub sp: u64,
    pub pc: u64,
    pub bad: bool,
    /// RET executed (pc = x[n])
    pub returned: bool,
    /// bit i: xi written
    pub written: u32,
    pub wrote_mem: bool,
    pub fetched_dirty: bool,
}

pub fn any_a64(start: u64) -> A64 {
    A64 { x: kani::any(), sp: kani::any(), pc: start, bad: false, returned: false, written: 0, wrote_mem: false, fetched_dirty: false }
}

pub struct Fetch {
    pub found: bool,
    /// the region's page is currently not executable
    pub noexec: bool,
    pub bytes: [u8; sim::RLEN],
    pub dirty: [bool; sim::RLEN],
}
fn fetch(pc: u64) -> Fetch {
    let mut f = Fetch { found: false, noexec: false, bytes: [0; sim::RLEN], dirty: [false; sim::RLEN] };
    unsafe {
        let mut i = 0;
        while i < sim::S.NE_ACT {
            if !f.found && sim::ENT[i].live && sim::ENT[i].base == pc {
                f.found = true;
                f.bytes = sim::ENT[i].bytes;
                f.dirty = sim::ENT[i].dirty;
                f.noexec = sim::ENT[i].noexec;
            }
            i += 1;
        }
        let mut j = 0;
        while j < sim::S.NJ_ACT {
            if !f.found && sim::JIT[j].live && sim::JIT[j].base == pc {
                f.found = true;
                f.bytes = sim::JIT[j].bytes;
                f.dirty = sim::JIT[j].dirty;
                f.noexec = sim::JIT[j].noexec;
            }
            j += 1;
        }
    }
    f
}

pub fn inside_some_region(pc: u64) -> bool {
    unsafe {
        let mut i = 0;
        while i < sim::S.NE_ACT {
            if sim::ENT[i].live && pc > sim::ENT[i].base && pc < sim::ENT[i].base + sim::RLEN as u64 {
                return true;
            }
            i += 1;
        }
        let mut j = 0;
        while j < sim::S.NJ_ACT {
            if sim::JIT[j].base != 0 && pc >= sim::JIT[j].base && pc < sim::JIT[j].base + sim::S.PAGE {
                if !(sim::JIT[j].live && pc == sim::JIT[j].base) {
                    return true;
                }
            }
            j += 1;
        }
        false
    }
}

fn word(b: &[u8; sim::RLEN], k: usize) -> u32 {
    u32::from_le_bytes([b[4 * k], b[4 * k + 1], b[4 * k + 2], b[4 * k + 3]])
}

/// execute one instruction word at address `pc`; returns true if control was transferred
pub fn step(c: &mut A64, w: u32, pc: u64) -> bool {
    if w == 0xD503_201F {
        // NOP
        false
    } else if w & 0xFC00_0000 == 0x1400_0000 {
        let imm26 = w & 0x03FF_FFFF;
        let off = ((((imm26 << 6) as i32) >> 6) as i64).wrapping_mul(4);
        c.pc = pc.wrapping_add(off as u64);
        true
    } else if w & 0x7F80_0000 == 0x5280_0000 {
        // MOVZ (sf in bit 31)
        let sf = w >> 31;
        let hw = (w >> 21) & 3;
        if sf == 0 && hw > 1 {
            c.bad = true;
            return true;
        }
        let imm = ((w >> 5) & 0xFFFF) as u64;
        let rd = (w & 31) as usize;
        if rd != 31 {
            c.x[rd] = imm << (16 * hw);
            c.written |= 1 << rd;
        }
        false
    } else if w & 0x7F80_0000 == 0x7280_0000 {
        // MOVK
        let sf = w >> 31;
        let hw = (w >> 21) & 3;
        if sf == 0 && hw > 1 {
            c.bad = true;
            return true;
        }
        let imm = ((w >> 5) & 0xFFFF) as u64;
        let rd = (w & 31) as usize;
        if rd != 31 {
            let mut v = (c.x[rd] & !(0xFFFFu64 << (16 * hw))) | (imm << (16 * hw));
            if sf == 0 {
                v &= 0xFFFF_FFFF;
            }
            c.x[rd] = v;
            c.written |= 1 << rd;
        }
        false
    } else if w & 0xFFFF_FC1F == 0xD61F_0000 {
        // BR Xn
        let rn = ((w >> 5) & 31) as usize;
        c.pc = if rn == 31 { 0 } else { c.x[rn] };
        true
    } else if w & 0xFFFF_FC1F == 0xD65F_0000 {
        // RET Xn
        let rn = ((w >> 5) & 31) as usize;
        c.pc = if rn == 31 { 0 } else { c.x[rn] };
        c.returned = true;
        true
    } else if w & 0x9F00_0000 == 0x9000_0000 {
        // ADRP
        let immlo = ((w >> 29) & 3) as u64;
        let immhi = ((w >> 5) & 0x7FFFF) as u64;
        let imm21 = (immhi << 2) | immlo;
        let simm = (((imm21 << 43) as i64) >> 43) << 12;
        let rd = (w & 31) as usize;
        if rd != 31 {
            c.x[rd] = (pc & !0xFFF).wrapping_add(simm as u64);
            c.written |= 1 << rd;
        }
        false
    } else if w & 0xFFC0_0000 == 0x9100_0000 {
        // ADD Xd, Xn, #imm12 (sh = 0)
        let imm12 = ((w >> 10) & 0xFFF) as u64;
        let rn = ((w >> 5) & 31) as usize;
        let rd = (w & 31) as usize;
        let a = if rn == 31 { c.sp } else { c.x[rn] };
        let v = a.wrapping_add(imm12);
        if rd == 31 {
            c.sp = v;
            c.written |= 1 << 31;
        } else {
            c.x[rd] = v;
            c.written |= 1 << rd;
        }
        false
    } else {
        c.bad = true;
        true
    }
}

/// run the block starting at c.pc (max 6 words per block, max `max` blocks)
pub fn run(c: &mut A64, max: usize) {
    let mut n = 0;
    while n < max {
        if c.bad || c.returned {
            return;
        }
        let f = fetch(c.pc);
        if !f.found {
            if inside_some_region(c.pc) {
                c.bad = true;
            }
            return;
        }
        if f.noexec {
            c.bad = true;
            return;
        }
        let base = c.pc;
        let mut k = 0;
        let mut done = false;
        while k < 6 {
            if !done {
                let w = word(&f.bytes, k);
                if f.dirty[4 * k] || f.dirty[4 * k + 1] || f.dirty[4 * k + 2] || f.dirty[4 * k + 3] {
                    c.fetched_dirty = true;
                }
                if step(c, w, base.wrapping_add(4 * k as u64)) {
                    done = true;
                }
            }
            k += 1;
        }
        if !done {
            c.bad = true; // ran off the modelled block
        }
        n += 1;
    }
}
