//! 32-bit ARM variant, histories through the PUBLIC API.  ARM installs need no trampoline and
//! have a constant patch size, which makes multi-install histories cheap for the solver; the
//! drop-order / lock / verifier logic exercised here (interface/injector.rs) is shared by all
//! architectures.  Draw order: f (u32), bytes[24], then per step t (u32).
use crate::interface::injector::*;
use crate::verif::armdec::*;
use crate::verif::rt::*;
use libc::sim;

const SIG: &str = "fn() -> bool";

unsafe fn dest_of(entry: u32, thumb: bool) -> Option<u32> {
    let mut code = [0u8; 16];
    let mut k = 0;
    while k < 16 {
        code[k] = sim::ENT[0].bytes[k];
        k += 1;
    }
    let r = if thumb { run_t32(entry, &code) } else { run_a32(entry, &code) };
    match r {
        Some(x) => Some(x.dest),
        None => None,
    }
}

unsafe fn same_target<const L: usize>() {
    sim::reset();
    sim::S.NE_ACT = 1;
    sim::S.NJ_ACT = 0;
    sim::S.PAGE = 4096;
    sim::S.REQUIRE_LOCK = true;
    let f: u32 = kani::any();
    kani::assume(f >= 0x1000 && f < 0xFFFF_E000);
    let thumb = f & 1 == 1;
    kani::assume(thumb || f & 3 == 0);
    let entry = f & !1;
    let orig: [u8; sim::RLEN] = kani::any();
    sim::register_entry(0, entry as u64, 16, orig);
    kani::cover!(thumb, "COVER: Thumb target");
    kani::cover!(!thumb, "COVER: A32 target");
    assert!(!lock_held(), "VERIF[C04]: the process-wide lock is not free while no injector or preventer exists");
    {
        let mut inj = InjectorPP::new();
        let mut last = 0u32;
        let mut last_is_raw = true;
        let mut i = 0;
        while i < L {
            let t: u32 = kani::any();
            kani::assume(t != 0);
            let raw: bool = kani::any();
            if raw {
                inj.when_called(FuncPtr::new(f as usize as *const (), SIG))
                    .will_execute_raw(FuncPtr::new(t as usize as *const (), SIG));
            } else {
                // on 32-bit ARM the forced boolean is an ordinary redirect to one of two one-line functions
                inj.when_called(FuncPtr::new(f as usize as *const (), SIG)).will_return_boolean(kani::any());
            }
            last = t;
            last_is_raw = raw;
            assert!(lock_held(), "VERIF[C04]: a live injector does not hold the process-wide lock");
            assert!(sim::all_clean(), "VERIF[C17]: bytes written during installation are not covered by a later flush");
            kani::cover!(i > 0 && !raw, "COVER: forced boolean installed over an earlier fake of the same function");
            i += 1;
        }
        let d = dest_of(entry, thumb);
        assert!(d.is_some(), "VERIF[C02]: while the injector lives the entry does not decode to a redirect");
        if last_is_raw {
            assert!(d == Some(last), "VERIF[C02]: while the injector lives, the most recent installation is not the one in effect");
        }
        let (ng, nv) = inj.__verif_counts();
        assert!(ng == L, "VERIF[C02]: the injector does not hold one guard per installation");
    }
    let mut k = 0;
    while k < 16 {
        assert!(sim::ENT[0].bytes[k] == orig[k], "VERIF[C02,C04]: entry bytes differ from the original after the injector is dropped (whoever takes the lock next would not see original code)");
        k += 1;
    }
    assert!(sim::all_clean(), "VERIF[C17]: restored bytes are not covered by a later flush");
    assert!(!lock_held(), "VERIF[C04]: the process-wide lock is still held after the injector is dropped");
    assert!(sim::live_jits() == 0, "VERIF[C12]: a mapping created by an installation is still live after the injector is dropped");
}

macro_rules! harness {
    ($name:ident, $l:literal) => {
        #[kani::proof]
        #[kani::unwind(26)]
        #[kani::stub(std::ptr::copy_nonoverlapping, shim_copy)]
        #[kani::stub(crate::injector_core::linuxapi::__clear_cache, shim_clear_cache)]
        #[kani::stub(<*mut u8>::add, shim_add)]
        fn $name() {
            unsafe { same_target::<$l>() }
        }
    };
}
harness!(arm_api_same1, 1);
harness!(arm_api_same2, 2);
harness!(arm_api_same3, 3);
