//! Independent A32 / T32 interpreters for the instructions an entry patch may consist of.
//! Written from the ARM ARM (DDI 0406C): A8.8.64 LDR (literal), A8.8.27 BX, A8.8.120 NOP,
//! MOV r8,r8 (0x46C0, the classic Thumb nop), and the 32-bit Thumb-2 LDR (literal) encoding T2
//! (`1111 1000 U101 1111 | Rt imm12`).  `Align(PC,4)` semantics included.
//! Returns None for anything else.

pub struct ArmRun {
    /// branch destination (value of the BX operand, Thumb bit included)
    pub dest: u32,
    /// bit i set: register ri was written
    pub written: u32,
    /// offset (from the patch start) of the literal word the LDR actually read
    pub literal_off: u32,
    /// number of bytes of the patch that were executed or read as data (must be <= 12)
    pub extent: u32,
}

fn w32(b: &[u8], o: usize) -> u32 {
    u32::from_le_bytes([b[o], b[o + 1], b[o + 2], b[o + 3]])
}
fn h16(b: &[u8], o: usize) -> u16 {
    u16::from_le_bytes([b[o], b[o + 1]])
}

/// A32: instructions are 4 bytes, PC reads as address + 8
pub fn run_a32(base: u32, code: &[u8; 16]) -> Option<ArmRun> {
    let mut regs = [0u32; 16];
    let mut r = ArmRun { dest: 0, written: 0, literal_off: 0, extent: 0 };
    let mut k = 0usize;
    while k < 3 {
        let w = w32(code, 4 * k);
        let pc = base.wrapping_add(4 * k as u32).wrapping_add(8);
        if w & 0x0F7F_0000 == 0x051F_0000 && (w >> 28) == 0xE {
            // LDR Rt, [PC, #+/-imm12]  cond=AL, P=1, W=0
            let u = (w >> 23) & 1;
            let rt = ((w >> 12) & 15) as usize;
            let imm = w & 0xFFF;
            let a = if u == 1 { (pc & !3).wrapping_add(imm) } else { (pc & !3).wrapping_sub(imm) };
            let off = a.wrapping_sub(base);
            if off > 12 || off % 4 != 0 {
                return None; // reads outside the 16 modelled bytes
            }
            if rt == 15 {
                return None;
            }
            regs[rt] = w32(code, off as usize);
            r.written |= 1 << rt;
            r.literal_off = off;
            if off + 4 > r.extent {
                r.extent = off + 4;
            }
        } else if w & 0x0FFF_FFF0 == 0x012F_FF10 && (w >> 28) == 0xE {
            // BX Rm
            r.dest = regs[(w & 15) as usize];
            if (w & 15) as u32 == 15 || r.written & (1 << (w & 15)) == 0 {
                return None; // branch through a register the sequence did not load
            }
            let e = 4 * k as u32 + 4;
            if e > r.extent {
                r.extent = e;
            }
            return Some(r);
        } else {
            return None;
        }
        k += 1;
    }
    None
}

/// T32: 16-bit encodings plus the 32-bit LDR (literal) T2; PC reads as address + 4
pub fn run_t32(base: u32, code: &[u8; 16]) -> Option<ArmRun> {
    let mut regs = [0u32; 16];
    let mut r = ArmRun { dest: 0, written: 0, literal_off: 0, extent: 0 };
    let mut o = 0usize;
    let mut n = 0;
    while n < 4 {
        if o > 10 {
            return None;
        }
        let h = h16(code, o);
        let pc = base.wrapping_add(o as u32).wrapping_add(4);
        let mut len = 2usize;
        if h == 0x46C0 || h == 0xBF00 {
            // nop
        } else if h & 0xF800 == 0x4800 {
            // LDR Rt, [PC, #imm8*4]   (T1)
            let rt = ((h >> 8) & 7) as usize;
            let imm = ((h & 0xFF) as u32) * 4;
            let a = (pc & !3).wrapping_add(imm);
            let off = a.wrapping_sub(base);
            if off > 12 {
                return None;
            }
            regs[rt] = w32(code, off as usize);
            r.written |= 1 << rt;
            r.literal_off = off;
            if off + 4 > r.extent {
                r.extent = off + 4;
            }
        } else if h & 0xFF7F == 0xF85F {
            // LDR.W Rt, [PC, #+/-imm12]   (T2, 32-bit)
            let h2 = h16(code, o + 2);
            let u = (h >> 7) & 1;
            let rt = ((h2 >> 12) & 15) as usize;
            let imm = (h2 & 0xFFF) as u32;
            if rt == 15 || rt == 13 {
                return None;
            }
            let a = if u == 1 { (pc & !3).wrapping_add(imm) } else { (pc & !3).wrapping_sub(imm) };
            let off = a.wrapping_sub(base);
            if off > 12 || a % 4 != 0 {
                return None; // outside the modelled bytes, or not a word-aligned literal
            }
            regs[rt] = w32(code, off as usize);
            r.written |= 1 << rt;
            r.literal_off = off;
            if off + 4 > r.extent {
                r.extent = off + 4;
            }
            len = 4;
        } else if h & 0xFF87 == 0x4700 {
            // BX Rm
            let rm = ((h >> 3) & 15) as usize;
            if rm == 15 || r.written & (1 << rm) == 0 {
                return None;
            }
            r.dest = regs[rm];
            let e = o as u32 + 2;
            if e > r.extent {
                r.extent = e;
            }
            return Some(r);
        } else {
            return None;
        }
        o += len;
        n += 1;
    }
    None
}
