//! x86-64 Linux, histories of installations through the PUBLIC API
//! (InjectorPP::new / when_called / will_execute_raw / will_return_boolean / drop).
//! Obligations: C02 (latest wins, restore), C03 (model), C04 (lock discipline), C12 (mappings),
//! C17 (flushes).  Draw order (for counterexample decoding): f0, f1, bytes0[24], bytes1[24],
//! then per step: k, kind, t, v, (model: j).
use crate::interface::injector::*;
use crate::verif::rt::*;
use crate::verif::x64dec::*;
use libc::sim;

const SIG: &str = "fn() -> bool";
const ESLOT: usize = 16;

#[derive(Clone, Copy)]
struct Cur {
    set: bool,
    raw: bool,
    t: u64,
    v: bool,
}

unsafe fn check_entry(k: usize, cur: &Cur, orig: &[u8; sim::RLEN]) {
    if !cur.set {
        let mut i = 0;
        while i < ESLOT {
            assert!(sim::ENT[k].bytes[i] == orig[i], "VERIF[C03]: a function that was not named in any installation changed");
            i += 1;
        }
        return;
    }
    let c0 = any_cpu(sim::ENT[k].base);
    kani::assume(!inside_some_region(c0.ret_addr) && sim::find_jit(c0.ret_addr).is_none() && sim::find_entry(c0.ret_addr).is_none());
    let mut c = c0;
    run(&mut c, 4);
    assert!(!c.bad, "VERIF[C02]: a patched entry does not decode to a chain of branches while the injector lives");
    if cur.raw {
        assert!(!c.returned, "VERIF[C02]: most recent installation is a redirect but the entry returns a constant");
        assert!(c.pc == cur.t, "VERIF[C02]: while the injector lives, the most recent installation is not the one in effect");
    } else {
        assert!(c.returned && c.pc == c0.ret_addr, "VERIF[C02]: most recent installation is a forced boolean but the entry does not return");
        assert!((c.regs[0] & 0xFF) == cur.v as u64, "VERIF[C02]: while the injector lives, the most recent installation is not the one in effect");
    }
    assert!(!c.fetched_dirty, "VERIF[C17]: an instruction byte on the path was not flushed after its last write");
}

unsafe fn history<const L: usize>(two_lifetimes: bool) {
    sim::reset();
    sim::S.NE_ACT = 2;
    sim::S.NJ_ACT = if two_lifetimes { 2 * L } else { L };
    sim::S.PAGE = 4096;
    sim::S.MODE = 0;
    sim::S.COOP_RANGE = crate::verif::VARIANT_RANGE;
    sim::S.REQUIRE_LOCK = true;
    let f0 = any_entry_addr();
    let f1 = any_entry_addr();
    kani::assume(f0.abs_diff(f1) >= ESLOT as u64);
    let b0: [u8; sim::RLEN] = kani::any();
    let b1: [u8; sim::RLEN] = kani::any();
    sim::register_entry(0, f0, ESLOT, b0);
    sim::register_entry(1, f1, ESLOT, b1);
    let f = [f0, f1];
    let orig = [b0, b1];
    let mut life = 0;
    while life < 2 {
        if life == 1 && !two_lifetimes {
            break;
        }
        assert!(!lock_held(), "VERIF[C04]: the process-wide lock is not free while no injector or preventer exists");
        let mut cur = [Cur { set: false, raw: false, t: 0, v: false }; 2];
        let jits_before = sim::live_jits();
        let unmaps_before = sim::S.N_MUNMAP;
        {
            let mut inj = InjectorPP::new();
            assert!(lock_held(), "VERIF[C04]: a live injector does not hold the process-wide lock");
            let mut i = 0;
            while i < L {
                let k: usize = kani::any();
                kani::assume(k < 2);
                let raw: bool = kani::any();
                let t: u64 = kani::any();
                let v: bool = kani::any();
                kani::assume(t != 0 && t < (1u64 << 63));
                kani::assume(t.abs_diff(f0) >= sim::RLEN as u64 && t.abs_diff(f1) >= sim::RLEN as u64);
                sim::S.COOP_CENTER = f[k];
                let target = FuncPtr::new(f[k] as *const (), SIG);
                if raw {
                    inj.when_called(target).will_execute_raw(FuncPtr::new(t as *const (), SIG));
                } else {
                    inj.when_called(target).will_return_boolean(v);
                }
                kani::assume(!inside_some_region(t) && sim::find_jit(t).is_none());
                cur[k] = Cur { set: true, raw, t, v };
                kani::cover!(i > 0 && cur[0].set && !cur[1].set, "COVER: same function faked twice");
                kani::cover!(cur[0].set && cur[1].set, "COVER: two functions faked");
                assert!(lock_held(), "VERIF[C04]: a live injector does not hold the process-wide lock");
                assert!(sim::all_clean(), "VERIF[C17]: bytes written during installation are not covered by a later flush");
                assert!(sim::live_jits() > jits_before && sim::live_jits() <= jits_before + (i as u32) + 1, "VERIF[C12]: the live trampolines are not those of the installations made so far");
                // a previously installed raw fake may name an address that a later trampoline now occupies;
                // that is the harness' choice of t, not the code's: exclude it
                let other = 1 - k;
                if cur[other].set && cur[other].raw {
                    kani::assume(!inside_some_region(cur[other].t) && sim::find_jit(cur[other].t).is_none());
                }
                if i + 1 == L {
                    // intermediate states are the final states of the shorter histories (L-1, ..)
                    check_entry(0, &cur[0], &orig[0]);
                    check_entry(1, &cur[1], &orig[1]);
                }
                i += 1;
            }
        }
        // scope exit
        let mut k = 0;
        while k < 2 {
            let mut i = 0;
            while i < ESLOT {
                assert!(sim::ENT[k].bytes[i] == orig[k][i], "VERIF[C02,C04]: entry bytes differ from the original after the injector is dropped (whoever takes the lock next would not see original code)");
                i += 1;
            }
            k += 1;
        }
        assert!(sim::all_clean(), "VERIF[C17]: restored bytes are not covered by a later flush");
        assert!(sim::live_jits() == jits_before, "VERIF[C12]: a trampoline mapping is still live after the injector is dropped");
        assert!(!lock_held(), "VERIF[C04]: the process-wide lock is still held after the injector is dropped");
        life += 1;
    }
    // hand-over: both kinds of guard can be taken again
    {
        let p = InjectorPP::prevent();
        assert!(lock_held(), "VERIF[C04]: a live preventer does not hold the process-wide lock");
        assert!(p.is_active());
    }
    assert!(!lock_held(), "VERIF[C04]: the process-wide lock is still held after the preventer is dropped");
}

#[kani::proof]
#[kani::unwind(26)]
#[kani::stub(std::ptr::copy_nonoverlapping, shim_copy)]
#[kani::stub(crate::injector_core::linuxapi::__clear_cache, shim_clear_cache)]
#[kani::stub(<*mut u8>::add, shim_add)]
#[kani::stub(crate::injector_core::common::allocate_jit_memory, shim_allocate_jit_memory)]
fn x64_api_hist_l2() {
    unsafe { history::<2>(false) }
}

#[kani::proof]
#[kani::unwind(26)]
#[kani::stub(std::ptr::copy_nonoverlapping, shim_copy)]
#[kani::stub(crate::injector_core::linuxapi::__clear_cache, shim_clear_cache)]
#[kani::stub(<*mut u8>::add, shim_add)]
#[kani::stub(crate::injector_core::common::allocate_jit_memory, shim_allocate_jit_memory)]
fn x64_api_hist_l3() {
    unsafe { history::<3>(false) }
}

#[kani::proof]
#[kani::unwind(26)]
#[kani::stub(std::ptr::copy_nonoverlapping, shim_copy)]
#[kani::stub(crate::injector_core::linuxapi::__clear_cache, shim_clear_cache)]
#[kani::stub(<*mut u8>::add, shim_add)]
#[kani::stub(crate::injector_core::common::allocate_jit_memory, shim_allocate_jit_memory)]
fn x64_api_hist_l1x2() {
    unsafe { history::<1>(true) }
}

#[kani::proof]
#[kani::unwind(26)]
#[kani::stub(std::ptr::copy_nonoverlapping, shim_copy)]
#[kani::stub(crate::injector_core::linuxapi::__clear_cache, shim_clear_cache)]
#[kani::stub(<*mut u8>::add, shim_add)]
#[kani::stub(crate::injector_core::common::allocate_jit_memory, shim_allocate_jit_memory)]
fn x64_api_hist_l1() {
    unsafe { history::<1>(false) }
}

// ---------------------------------------------------------------------------------------------
// installation flavours: every public way of naming a replacement ends in the same redirect
// ---------------------------------------------------------------------------------------------
fn flavour_fn() -> bool {
    true
}

unsafe fn one_flavour(which: u8) {
    sim::reset();
    sim::S.NE_ACT = 1;
    sim::S.NJ_ACT = 1;
    sim::S.PAGE = 4096;
    sim::S.MODE = 0;
    sim::S.COOP_RANGE = crate::verif::VARIANT_RANGE;
    sim::S.REQUIRE_LOCK = true;
    let f0 = any_entry_addr();
    let b0: [u8; sim::RLEN] = kani::any();
    sim::register_entry(0, f0, ESLOT, b0);
    {
        let mut inj = InjectorPP::new();
        let expected: *const ();
        if which == 0 {
            // func! (type-carrying) on both sides
            let r = crate::func!(flavour_fn, fn() -> bool);
            expected = r.__verif_raw();
            inj.when_called(FuncPtr::new(f0 as *const (), "fn() -> bool")).will_execute_raw(r);
        } else if which == 1 {
            // closure!
            let r = crate::closure!(|| -> bool { false }, fn() -> bool);
            expected = r.__verif_raw();
            inj.when_called(FuncPtr::new(f0 as *const (), "fn() -> bool")).will_execute_raw(r);
        } else if which == 2 {
            // unchecked target and unchecked replacement
            let r = crate::func_unchecked!(flavour_fn);
            expected = r.__verif_raw();
            inj.when_called_unchecked(FuncPtr::new(f0 as *const (), "")).will_execute_raw_unchecked(r);
        } else {
            // closure_unchecked!
            let r = crate::closure_unchecked!(|| -> bool { true }, fn() -> bool);
            expected = r.__verif_raw();
            inj.when_called_unchecked(FuncPtr::new(f0 as *const (), "")).will_execute_raw_unchecked(r);
        }
        assert!(!expected.is_null(), "VERIF[C01]: the macro produced a null replacement");
        let c0 = any_cpu(f0);
        let mut c = c0;
        run(&mut c, 4);
        assert!(!c.bad && !c.returned, "VERIF[C01]: patched entry/trampoline do not decode to a chain of branches");
        assert!(c.pc == expected as u64, "VERIF[C01]: control does not arrive at the function the macro named");
        assert!(sim::all_clean(), "VERIF[C17]: bytes written during installation are not covered by a later flush");
    }
    let mut i = 0;
    while i < ESLOT {
        assert!(sim::ENT[0].bytes[i] == b0[i], "VERIF[C02,C04]: entry bytes differ from the original after the injector is dropped (whoever takes the lock next would not see original code)");
        i += 1;
    }
    assert!(sim::live_jits() == 0 && !lock_held(), "VERIF[C12]: a trampoline mapping is still live after the injector is dropped");
}

#[kani::proof]
#[kani::unwind(26)]
#[kani::stub(std::ptr::copy_nonoverlapping, shim_copy)]
#[kani::stub(crate::injector_core::linuxapi::__clear_cache, shim_clear_cache)]
#[kani::stub(<*mut u8>::add, shim_add)]
#[kani::stub(crate::injector_core::common::allocate_jit_memory, shim_allocate_jit_memory)]
fn x64_api_flavours() {
    unsafe {
        let which: u8 = kani::any();
        kani::assume(which < 4);
        one_flavour(which);
        kani::cover!(which == 0, "COVER: func!");
        kani::cover!(which == 1, "COVER: closure!");
        kani::cover!(which == 2, "COVER: func_unchecked! with when_called_unchecked");
        kani::cover!(which == 3, "COVER: closure_unchecked!");
    }
}
