//! x86-64, one installation driven at the `injector_core` level (PatchAmd64).  The trampoline
//! address comes from the allocator's contract stub (any free page within the variant's range);
//! the real retry loop together with the real entry branch is checked in x64_alloc.rs (C11).
//! Obligations: C01 (reach the fake), C13 (transparency), C17 (flushed), C03 (model), C02/C12 (drop).
use crate::injector_core::common::*;
use crate::injector_core::patch_amd64::*;
use crate::injector_core::patch_trait::*;
use crate::verif::rt::*;
use crate::verif::x64dec::*;
use libc::sim;
use std::ptr::NonNull;

unsafe fn fp(a: u64) -> FuncPtrInternal {
    FuncPtrInternal::new(NonNull::new(a as *mut ()).unwrap())
}

/// common set-up: one entry at a symbolic address with symbolic contents
unsafe fn setup() -> (u64, [u8; sim::RLEN]) {
    sim::reset();
    sim::S.NE_ACT = 1;
    sim::S.NJ_ACT = 1;
    sim::S.PAGE = 4096;
    sim::S.MODE = 0;
    let f = any_entry_addr();
    let bytes: [u8; sim::RLEN] = kani::any();
    sim::register_entry(0, f, 16, bytes);
    sim::S.COOP_CENTER = f;
    sim::S.COOP_RANGE = crate::verif::VARIANT_RANGE;
    (f, bytes)
}

#[kani::proof]
#[kani::unwind(26)]
#[kani::stub(std::ptr::copy_nonoverlapping, shim_copy)]
#[kani::stub(crate::injector_core::linuxapi::__clear_cache, shim_clear_cache)]
#[kani::stub(<*mut u8>::add, shim_add)]
#[kani::stub(crate::injector_core::common::allocate_jit_memory, shim_allocate_jit_memory)]
fn x64_core_redirect() {
    unsafe {
        let (f, orig) = setup();
        // program text is r-x; a code arena / JIT region is rwx before the injector ever sees it
        let was_writable: bool = kani::any();
        if was_writable {
            sim::ENT[0].wr = [true; sim::RLEN];
        }
        let t: u64 = kani::any();
        kani::assume(t != 0 && t < (1u64 << 63));
        kani::assume(!windows_overlap(t, f));
        let g = PatchAmd64::replace_function_with_other_function(fp(f), fp(t));
        kani::assume(!inside_some_region(t) && sim::find_jit(t).is_none());
        let j = sim::JIT[0].base;

        // C01: a call to f arrives at t
        let c0 = any_cpu(f);
        let mut c = c0;
        run(&mut c, 4);
        assert!(!c.bad, "VERIF[C01]: patched entry/trampoline do not decode to a chain of branches");
        assert!(c.pc == t && !c.returned, "VERIF[C01]: control does not arrive at the fake");
        // reachability witnesses come before the obligations of other properties (an assert cuts the path)
        kani::cover!(sim::JIT[0].bytes[0] == 0xE9, "COVER: rel32 trampoline form");
        kani::cover!(was_writable, "COVER: page writable before the installation");
        kani::cover!(!was_writable, "COVER: page read-only before the installation");
        kani::cover!(sim::JIT[0].bytes[0] == 0x48, "COVER: abs64 trampoline form");
        kani::cover!((f & 4095) > 4096 - 5, "COVER: entry patch straddles a page boundary");
        kani::cover!(f < 0x800_0000, "COVER: target below 128 MiB");
        kani::cover!(sim::ENT[0].bytes[0] == 0x48, "COVER: 12-byte entry form");
        kani::cover!(j > f, "COVER: trampoline above the target");
        kani::cover!(j < f, "COVER: trampoline below the target");
        // C13
        assert!(
            transparent_except_rax(&c0, &c),
            "VERIF[C13]: a register other than rax, or the stack pointer, differs on arrival at the fake"
        );
        // C17
        assert!(!c.fetched_dirty, "VERIF[C17]: an instruction byte on the path was not flushed after its last write");
        assert!(sim::all_clean(), "VERIF[C17]: bytes written during installation are not covered by a later flush");
        // C03 (beyond the model's own write checks): bytes behind the patch are intact
        let plen: usize = if sim::ENT[0].bytes[0] == 0xE9 { 5 } else { 12 };
        let mut k = 0;
        while k < sim::RLEN {
            if k >= plen {
                assert!(sim::ENT[0].bytes[k] == orig[k], "VERIF[C03]: byte behind the entry patch changed");
            }
            k += 1;
        }
        // C12
        assert!(sim::live_jits() == 1 && sim::S.N_MUNMAP == 0, "VERIF[C12]: live trampolines differ from live guards after install");


        drop(g);
        // C02
        let mut k = 0;
        while k < sim::RLEN {
            assert!(sim::ENT[0].bytes[k] == orig[k], "VERIF[C02]: entry bytes differ from the original after drop");
            k += 1;
        }
        assert!(sim::all_clean(), "VERIF[C17]: restored bytes are not covered by a later flush");
        assert!(sim::live_jits() == 0 && sim::S.N_MUNMAP == 1, "VERIF[C12]: trampoline not released exactly once on drop");
        // C03: functions that were not named keep running - a page that was writable before the
        // installation (its other occupants may store to it) is not left without write permission
        if was_writable {
            let mut k = 0;
            while k < sim::RLEN {
                assert!(sim::ENT[0].wr[k], "VERIF[C03]: a page that was writable before the installation is left read-only after the injector is gone (stores by functions that were not named fault)");
                k += 1;
            }
        }
    }
}

#[kani::proof]
#[kani::unwind(26)]
#[kani::stub(std::ptr::copy_nonoverlapping, shim_copy)]
#[kani::stub(crate::injector_core::linuxapi::__clear_cache, shim_clear_cache)]
#[kani::stub(<*mut u8>::add, shim_add)]
#[kani::stub(crate::injector_core::common::allocate_jit_memory, shim_allocate_jit_memory)]
fn x64_core_boolean() {
    unsafe {
        let (f, orig) = setup();
        let v: bool = kani::any();
        let g = PatchAmd64::replace_function_return_boolean(fp(f), v);

        let c0 = any_cpu(f);
        kani::assume(!inside_some_region(c0.ret_addr) && sim::find_jit(c0.ret_addr).is_none() && sim::find_entry(c0.ret_addr).is_none());
        let mut c = c0;
        run(&mut c, 4);
        assert!(!c.bad, "VERIF[C01]: patched entry/trampoline do not decode");
        assert!(c.returned && c.pc == c0.ret_addr, "VERIF[C10]: the stub does not return to the caller");
        assert!((c.regs[0] & 0xFF) == v as u64, "VERIF[C10]: al differs from the requested boolean");
        assert!(c.rsp == c0.rsp.wrapping_add(8) && !c.wrote_mem, "VERIF[C10]: stack pointer not as after a normal return");
        let mut i = 1;
        while i < 16 {
            assert!(c.regs[i] == c0.regs[i], "VERIF[C10]: the stub changed a register other than rax");
            i += 1;
        }
        assert!(!c.fetched_dirty && sim::all_clean(), "VERIF[C17]: bytes written during installation are not covered by a later flush");
        assert!(sim::live_jits() == 1, "VERIF[C12]: live trampolines differ from live guards after install");
        kani::cover!(v, "COVER: true");
        kani::cover!(!v, "COVER: false");
        drop(g);
        let mut k = 0;
        while k < sim::RLEN {
            assert!(sim::ENT[0].bytes[k] == orig[k], "VERIF[C02]: entry bytes differ from the original after drop");
            k += 1;
        }
        assert!(sim::all_clean(), "VERIF[C17]: restored bytes are not covered by a later flush");
        assert!(sim::live_jits() == 0 && sim::S.N_MUNMAP == 1, "VERIF[C12]: trampoline not released exactly once on drop");
    }
}
