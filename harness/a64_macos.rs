//! AArch64 macOS variant: the pure long-jump encoder `maybe_emit_long_jump(pc, target)`.
//! For all word-aligned pc and all targets within +-4 GiB: the returned words, interpreted by the
//! independent A64 interpreter at address pc, transfer control to exactly `target`, writing at
//! most x16; within [-128 MiB, +128 MiB) it is a single B.
use crate::injector_core::arm64_codegenerator::*;
use crate::verif::a64dec::*;

#[kani::proof]
#[kani::unwind(8)]
fn a64_macos_long_jump() {
    let pc: u64 = kani::any();
    let target: u64 = kani::any();
    kani::assume(pc & 3 == 0 && pc >= 0x1000 && pc < (1u64 << 47));
    kani::assume(target < (1u64 << 47) && target & 3 == 0); // a trampoline is at least word-aligned (page-aligned in fact)
    // ADRP reaches +-4 GiB of the PAGE of pc
    let page_diff = ((target & !0xfff) as i64).wrapping_sub((pc & !0xfff) as i64);
    kani::assume(page_diff >= -(1i64 << 32) && page_diff < (1i64 << 32));
    let words = maybe_emit_long_jump(pc as usize, target as usize);
    assert!(words.len() == 1 || words.len() == 3, "VERIF[C15]: the macOS entry sequence is neither one B nor ADRP/ADD/BR");
    let mut c = A64 { x: kani::any(), sp: kani::any(), pc, bad: false, returned: false, written: 0, wrote_mem: false, fetched_dirty: false };
    let sp0 = c.sp;
    let mut k = 0;
    let mut done = false;
    while k < 3 {
        if !done && k < words.len() {
            if step(&mut c, words[k], pc.wrapping_add(4 * k as u64)) {
                done = true;
            }
        }
        k += 1;
    }
    assert!(done && !c.bad, "VERIF[C15]: the macOS entry sequence does not decode to a branch");
    assert!(c.pc == target, "VERIF[C15]: the macOS entry sequence does not land exactly on the trampoline");
    assert!(c.written & !(1 << 16) == 0 && c.sp == sp0, "VERIF[C15,C13]: the macOS entry sequence writes a register other than x16");
    let disp = (target as i64).wrapping_sub(pc as i64);
    if disp >= -(1i64 << 27) && disp < (1i64 << 27) {
        assert!(words.len() == 1 && c.written == 0, "VERIF[C15]: within direct range the macOS entry is not a single register-free B");
    }
    kani::cover!(words.len() == 3 && target < pc, "COVER: long form backwards");
    kani::cover!(words.len() == 3 && target > pc, "COVER: long form forwards");
    kani::cover!(words.len() == 1, "COVER: short form");
    kani::cover!(words.len() == 3 && (target & 0xfff) == 0xffc, "COVER: low 12 bits maximal");
}
