//! C14: the async API (x86-64 Linux variant).  The functions that get patched are the
//! `<F as Future>::poll` instances of real `async fn`s; their entries are registered at the
//! addresses Kani gives those functions and are matched by equality.
use crate::interface::injector::*;
use crate::verif::rt::*;
use crate::verif::x64dec::*;
use libc::sim;
use std::future::Future;
use std::pin::Pin;
use std::task::{Context, Poll};

// a family of sibling async functions with the same output type, by-value and by-reference
// parameters, a method, a unit and a large by-memory output
async fn sib_a(x: u32) -> u32 {
    x.wrapping_add(1)
}
async fn sib_b(x: u32) -> u32 {
    x.wrapping_add(2)
}
async fn sib_ref(x: &u32) -> u32 {
    (*x).wrapping_add(3)
}
struct Svc;
impl Svc {
    async fn method(&self, x: u32) -> u32 {
        x.wrapping_add(4)
    }
}
async fn sib_unit() {}
async fn sib_big() -> [u64; 8] {
    [1; 8]
}

fn poll_addr<F: Future>(_f: &F) -> u64 {
    let p: fn(Pin<&mut F>, &mut Context<'_>) -> Poll<F::Output> = <F as Future>::poll;
    p as *const () as u64
}

unsafe fn common() {
    sim::reset();
    sim::S.PAGE = 4096;
    sim::S.COOP_RANGE = crate::verif::VARIANT_RANGE;
    sim::S.REQUIRE_LOCK = true;
}

fn cell_u32() -> u32 {
    unsafe { sim::S.CELL[1] as u32 }
}

unsafe fn check_redirect(entry: u64, raw: *const ()) {
    let c0 = any_cpu(entry);
    let mut c = c0;
    run(&mut c, 4);
    assert!(!c.bad && !c.returned, "VERIF[C14]: the patched poll entry does not decode to a chain of branches");
    assert!(c.pc == raw as u64, "VERIF[C14]: polling the faked async function does not transfer control to the generated ready-value function");
    assert!(transparent_except_rax(&c0, &c), "VERIF[C14,C13]: registers other than rax changed on the way to the replacement");
}

macro_rules! stubs {
    ($(#[$m:meta])* fn $name:ident() $body:block) => {
        stubs! { @unwind 26 $(#[$m])* fn $name() $body }
    };
    (@unwind $u:literal $(#[$m:meta])* fn $name:ident() $body:block) => {
        $(#[$m])*
        #[kani::proof]
        #[kani::unwind($u)]
        #[kani::stub(std::ptr::copy_nonoverlapping, shim_copy)]
        #[kani::stub(crate::injector_core::linuxapi::__clear_cache, shim_clear_cache)]
        #[kani::stub(<*mut u8>::add, shim_add)]
        #[kani::stub(crate::injector_core::common::allocate_jit_memory, shim_allocate_jit_memory)]
        fn $name() $body
    };
}

stubs! {
/// fake one sibling (by-value parameter): only its poll is patched, the replacement returns
/// Ready(freshly evaluated value) on every call, the sibling with the same output type and the
/// by-reference sibling are untouched, everything is restored on drop
fn async_fake_one_of_family() {
    unsafe {
        common();
        sim::S.NE_ACT = 3;
        sim::S.NJ_ACT = 1;
        let fa = sib_a(1);
        let fb = sib_b(1);
        let seven = 7u32;
        let fr = sib_ref(&seven);
        let (pa, pb, pr) = (poll_addr(&fa), poll_addr(&fb), poll_addr(&fr));
        assert!(pa != pb && pa != pr && pb != pr, "VERIF[C14]: sibling async functions share one poll function");
        let (b0, b1, b2): ([u8; sim::RLEN], [u8; sim::RLEN], [u8; sim::RLEN]) = (kani::any(), kani::any(), kani::any());
        sim::register_entry(0, pa, 16, b0);
        sim::register_entry(1, pb, 16, b1);
        sim::register_entry(2, pr, 16, b2);
        core::mem::forget(fa);
        {
            let mut inj = InjectorPP::new();
            let repl = crate::async_return!(cell_u32(), u32);
            let raw = repl.__verif_raw();
            inj.when_called_async(crate::async_func!(sib_a(5), u32)).will_return_async(repl);
            assert!(sim::ENT[0].nwrites == 1, "VERIF[C14]: the poll function of the named async function was not patched");
            assert!(sim::ENT[1].nwrites == 0 && sim::ENT[2].nwrites == 0, "VERIF[C14,C03]: the poll function of another async function was modified");
            check_redirect(pa, raw);
            // the replacement completes at once with a freshly evaluated value, every time
            let g: fn() -> Poll<u32> = std::mem::transmute::<*const (), fn() -> Poll<u32>>(raw);
            let v1: u32 = kani::any();
            let v2: u32 = kani::any();
            sim::S.CELL[1] = v1 as u64;
            assert!(g() == Poll::Ready(v1), "VERIF[C14]: the replacement does not complete on its first poll with the value");
            sim::S.CELL[1] = v2 as u64;
            assert!(g() == Poll::Ready(v2), "VERIF[C14]: the value expression is not evaluated afresh on every poll");
            assert!(sim::all_clean(), "VERIF[C17]: bytes written during installation are not covered by a later flush");
        }
        let mut i = 0;
        while i < 16 {
            assert!(sim::ENT[0].bytes[i] == b0[i] && sim::ENT[1].bytes[i] == b1[i] && sim::ENT[2].bytes[i] == b2[i],
                "VERIF[C14,C02]: the original poll code is not back after the injector is gone");
            i += 1;
        }
        assert!(sim::live_jits() == 0 && !lock_held(), "VERIF[C14,C12]: trampoline or guard not released after the injector is gone");
        core::mem::forget(fb);
        core::mem::forget(fr);
    }
}
}

stubs! {
/// history over the family: fake a method future, re-fake it, fake the by-reference sibling
/// (unchecked flavour), drop: latest wins, siblings isolated, all restored
fn async_history_family() {
    unsafe {
        common();
        sim::S.NE_ACT = 2;
        sim::S.NJ_ACT = 3;
        let svc = Svc;
        let fm = svc.method(1);
        let nine = 9u32;
        let fr = sib_ref(&nine);
        let (pm, pr) = (poll_addr(&fm), poll_addr(&fr));
        assert!(pm != pr, "VERIF[C14]: sibling async functions share one poll function");
        let (b0, b1): ([u8; sim::RLEN], [u8; sim::RLEN]) = (kani::any(), kani::any());
        sim::register_entry(0, pm, 16, b0);
        sim::register_entry(1, pr, 16, b1);
        core::mem::forget(fm);
        core::mem::forget(fr);
        {
            let mut inj = InjectorPP::new();
            let r1 = crate::async_return!(11u32, u32);
            let r2 = crate::async_return!(cell_u32(), u32);
            let r3 = crate::async_return_unchecked!(33u32, u32);
            let (raw1, raw2, raw3) = (r1.__verif_raw(), r2.__verif_raw(), r3.__verif_raw());
            assert!(raw1 != raw2 && raw2 != raw3, "VERIF[C14]: two async_return! sites share one generated function");
            inj.when_called_async(crate::async_func!(svc.method(2), u32)).will_return_async(r1);
            inj.when_called_async(crate::async_func!(svc.method(3), u32)).will_return_async(r2);
            let ten = 10u32;
            inj.when_called_async_unchecked(crate::async_func_unchecked!(sib_ref(&ten))).will_return_async_unchecked(r3);
            check_redirect(pm, raw2);
            check_redirect(pr, raw3);
        }
        let mut i = 0;
        while i < 16 {
            assert!(sim::ENT[0].bytes[i] == b0[i] && sim::ENT[1].bytes[i] == b1[i], "VERIF[C14,C02]: the original poll code is not back after the injector is gone");
            i += 1;
        }
        assert!(sim::live_jits() == 0 && !lock_held(), "VERIF[C14,C12]: trampoline or guard not released after the injector is gone");
    }
}
}

stubs! { @unwind 26
/// the same async function faked twice through the checked API: the latest value is in effect,
/// the original poll code is back after drop
fn async_refake_same_function() {
    unsafe {
        common();
        sim::S.NE_ACT = 1;
        sim::S.NJ_ACT = 2;
        let fa = sib_a(1);
        let pa = poll_addr(&fa);
        let b0: [u8; sim::RLEN] = kani::any();
        sim::register_entry(0, pa, 16, b0);
        core::mem::forget(fa);
        {
            let mut inj = InjectorPP::new();
            let r1 = crate::async_return!(111u32, u32);
            let r2 = crate::async_return!(cell_u32(), u32);
            let raw2 = r2.__verif_raw();
            inj.when_called_async(crate::async_func!(sib_a(2), u32)).will_return_async(r1);
            inj.when_called_async(crate::async_func!(sib_a(3), u32)).will_return_async(r2);
            check_redirect(pa, raw2);
            assert!(sim::live_jits() == 2 || sim::live_jits() == 1, "VERIF[C14,C12]: unexpected number of live trampolines after a re-fake");
        }
        let mut i = 0;
        while i < 16 {
            assert!(sim::ENT[0].bytes[i] == b0[i], "VERIF[C14,C02]: the original poll code is not back after the injector is gone");
            i += 1;
        }
        assert!(sim::live_jits() == 0 && !lock_held(), "VERIF[C14,C12]: trampoline or guard not released after the injector is gone");
    }
}
}

stubs! { @unwind 26
/// re-fake of the same async function where the SECOND fake goes through the unchecked flavour
fn async_refake_unchecked_same_function() {
    unsafe {
        common();
        sim::S.NE_ACT = 1;
        sim::S.NJ_ACT = 2;
        let fa = sib_a(1);
        let pa = poll_addr(&fa);
        let b0: [u8; sim::RLEN] = kani::any();
        sim::register_entry(0, pa, 16, b0);
        core::mem::forget(fa);
        let first_unchecked: bool = kani::any();
        {
            let mut inj = InjectorPP::new();
            let r2 = crate::async_return_unchecked!(cell_u32(), u32);
            let raw2 = r2.__verif_raw();
            if first_unchecked {
                let r1 = crate::async_return_unchecked!(111u32, u32);
                inj.when_called_async_unchecked(crate::async_func_unchecked!(sib_a(2))).will_return_async_unchecked(r1);
            } else {
                let r1 = crate::async_return!(111u32, u32);
                inj.when_called_async(crate::async_func!(sib_a(2), u32)).will_return_async(r1);
            }
            inj.when_called_async_unchecked(crate::async_func_unchecked!(sib_a(3))).will_return_async_unchecked(r2);
            check_redirect(pa, raw2);
        }
        let mut i = 0;
        while i < 16 {
            assert!(sim::ENT[0].bytes[i] == b0[i], "VERIF[C14,C02]: the original poll code is not back after the injector is gone");
            i += 1;
        }
        assert!(sim::live_jits() == 0 && !lock_held(), "VERIF[C14,C12]: trampoline or guard not released after the injector is gone");
    }
}
}

stubs! {
/// unit and large by-memory outputs: the generated function returns Ready(value) of that type
fn async_outputs_unit_and_large() {
    unsafe {
        common();
        sim::S.NE_ACT = 2;
        sim::S.NJ_ACT = 2;
        let fu = sib_unit();
        let fl = sib_big();
        let (pu, pl) = (poll_addr(&fu), poll_addr(&fl));
        sim::register_entry(0, pu, 16, kani::any());
        sim::register_entry(1, pl, 16, kani::any());
        core::mem::forget(fu);
        core::mem::forget(fl);
        let mut inj = InjectorPP::new();
        let ru = crate::async_return!((), ());
        let rl = crate::async_return!([cell_u32() as u64; 8], [u64; 8]);
        let (rawu, rawl) = (ru.__verif_raw(), rl.__verif_raw());
        inj.when_called_async(crate::async_func!(sib_unit(), ())).will_return_async(ru);
        inj.when_called_async(crate::async_func!(sib_big(), [u64; 8])).will_return_async(rl);
        check_redirect(pu, rawu);
        check_redirect(pl, rawl);
        let gl: fn() -> Poll<[u64; 8]> = std::mem::transmute::<*const (), fn() -> Poll<[u64; 8]>>(rawl);
        let v: u32 = kani::any();
        sim::S.CELL[1] = v as u64;
        assert!(gl() == Poll::Ready([v as u64; 8]), "VERIF[C14]: a large by-memory output is not returned as Ready(value)");
        let gu: fn() -> Poll<()> = std::mem::transmute::<*const (), fn() -> Poll<()>>(rawu);
        assert!(gu() == Poll::Ready(()), "VERIF[C14]: the unit output is not returned as Ready(())");
        core::mem::forget(inj);
    }
}
}
