//! Run-time glue between the real injectorpp code and the simulated machine:
//! the functions Kani substitutes (`-Z stubbing`) for the primitives the real code
//! uses to touch code memory.  See DESIGN.md 1.1 (3).
use libc::sim;

/// R2: `core::arch::asm!("dsb sy", "isb", ..)` in clear_cache becomes this.
pub fn barrier() {
    unsafe { sim::barrier() }
}

/// stub for `<*mut u8>::add` / `<*const u8>::add` (integer-valued pointers are not CBMC objects)
pub unsafe fn shim_add<T>(p: *mut T, n: usize) -> *mut T {
    p.wrapping_add(n)
}
pub unsafe fn shim_add_const<T>(p: *const T, n: usize) -> *const T {
    p.wrapping_add(n)
}
/// stub for `<*mut u8>::offset_from` (windows flush length)
pub unsafe fn shim_offset_from<T>(a: *mut T, b: *const T) -> isize {
    ((a as usize).wrapping_sub(b as usize) as isize) / (core::mem::size_of::<T>().max(1) as isize)
}

/// stub for the foreign function `__clear_cache(start, end)`
pub unsafe fn shim_clear_cache(start: *mut u8, end: *mut u8) {
    sim::flush(start as u64, end as u64);
}

pub fn lock_held() -> bool {
    crate::interface::injector::__verif_lock_held()
}

// NOTE: no `static mut` scalars here - see the comment on `libc::sim::State` (Kani aliases them
// with equal-valued constants).  Harness switches live in `sim::S` (REQUIRE_LOCK, PANICKING, CELL).

/// stub for `std::ptr::copy_nonoverlapping`
pub unsafe fn shim_copy<T>(src: *const T, dst: *mut T, count: usize) {
    let n = count * core::mem::size_of::<T>();
    let (s, d) = (src as *const u8, dst as *mut u8);
    let ssim = sim::is_sim(s as u64);
    let dsim = sim::is_sim(d as u64);
    if !ssim && !dsim {
        core::intrinsics::copy_nonoverlapping(s, d, n);
        return;
    }
    let mut tmp = [0u8; sim::RLEN];
    if ssim {
        sim::read_block(s as u64, &mut tmp, n);
    } else {
        assert!(
            n <= sim::RLEN,
            "VERIF[C03]: write longer than the designated entry slot / trampoline block"
        );
        // (a per-byte loop here was measured to be MORE expensive than the intrinsic)
        core::intrinsics::copy_nonoverlapping(s, tmp.as_mut_ptr(), n);
    }
    if dsim {
        let held = if sim::S.REQUIRE_LOCK { lock_held() } else { true };
        sim::write_block(d as u64, &tmp, n, held);
    } else {
        core::intrinsics::copy_nonoverlapping(tmp.as_ptr(), d, n);
    }
}

/// symbolic `std::thread::panicking()`
pub fn shim_panicking() -> bool {
    unsafe {
        if sim::S.VERIFY_EXPECTS_RESTORED {
            // CallCountVerifier::drop asks this only when the count differs from the expectation,
            // i.e. right before it panics: by then unwinding must have nothing left to restore
            // wrongly - the property requires every faked function to be restored.
            assert!(
                sim::all_entries_restored() && sim::live_jits() == 0,
                "VERIF[C05,C02]: call-count verification (which may panic) runs before the faked functions are restored"
            );
            // ... and the counter it reads is a static shared by every injector built from the same
            // fake! line: it must be read while this injector still excludes all others.
            assert!(
                lock_held(),
                "VERIF[C04,C06]: call-count verification runs after the process-wide lock was released (another thread's installation from the same fake! site can reset or advance the counter in between)"
            );
        }
        sim::S.PANICKING
    }
}

/// An arbitrary user-space code address for a function entry with `slot` bytes modelled.
pub fn any_entry_addr() -> u64 {
    let f: u64 = kani::any();
    kani::assume(f >= 0x1000 && f < (1u64 << 46));
    f
}

/// do two 24-byte windows starting at a and b overlap?
pub fn windows_overlap(a: u64, b: u64) -> bool {
    a.abs_diff(b) < sim::RLEN as u64
}

/// Contract stub for `injector_core::common::allocate_jit_memory`, used ONLY by the multi-install
/// history harnesses (the retry loop would otherwise be unrolled to the unwind bound at every
/// installation).  Contract (established on the real function by the C11 harnesses and, for one
/// installation, by the *_core_* harnesses which run the real allocator): returns a fresh
/// executable mapping of `code_size` bytes whose address the entry branch of this variant can
/// reach, or does not return.
pub fn shim_allocate_jit_memory(src: &crate::injector_core::common::FuncPtrInternal, code_size: usize) -> *mut u8 {
    unsafe {
        let mode = sim::S.MODE;
        sim::S.MODE = 0;
        sim::S.COOP_CENTER = src.as_ptr() as u64;
        let p = libc::mmap(core::ptr::null_mut(), code_size, libc::PROT_READ | libc::PROT_WRITE | libc::PROT_EXEC,
                           libc::MAP_PRIVATE | libc::MAP_ANONYMOUS, -1, 0);
        sim::S.MODE = mode;
        p as *mut u8
    }
}

/// Contract stub for `str::trim` on the ASCII strings the gate harnesses construct: remove leading
/// and trailing ASCII white space (std's version decodes UTF-8 and consults the Unicode White_Space
/// table from both ends, which dominated the formula of the textual-gate harnesses).
pub fn shim_trim(s: &str) -> &str {
    let b = s.as_bytes();
    let mut lo = 0usize;
    let mut hi = b.len();
    let mut k = 0;
    while k < 24 {
        if lo < hi && (b[lo] == b' ' || (b[lo] >= 9 && b[lo] <= 13)) {
            lo += 1;
        }
        k += 1;
    }
    let mut k = 0;
    while k < 24 {
        if hi > lo && (b[hi - 1] == b' ' || (b[hi - 1] >= 9 && b[hi - 1] <= 13)) {
            hi -= 1;
        }
        k += 1;
    }
    unsafe { core::str::from_utf8_unchecked(&b[lo..hi]) }
}
