//! Run-time glue between the real injectorpp code and the simulated machine:
//! the functions Kani substitutes (`-Z stubbing`) for the primitives the real code
//! uses to touch code memory.  See DESIGN.md 1.1 (3).
use libc::sim;

/// R2: `core::arch::asm!("dsb sy", "isb", ..)` in clear_cache becomes this.
pub fn barrier() {
    unsafe { sim::barrier() }
}

/// stub for `<*mut u8>::add` / `<*const u8>::add` (integer-valued pointers are not CBMC objects)
pub unsafe fn shim_add<T>(p: *mut T, n: usize) -> *mut T {
    p.wrapping_add(n)
}
pub unsafe fn shim_add_const<T>(p: *const T, n: usize) -> *const T {
    p.wrapping_add(n)
}
/// stub for `<*mut u8>::offset_from` (windows flush length)
pub unsafe fn shim_offset_from<T>(a: *mut T, b: *const T) -> isize {
    ((a as usize).wrapping_sub(b as usize) as isize) / (core::mem::size_of::<T>().max(1) as isize)
}

/// stub for the foreign function `__clear_cache(start, end)`
pub unsafe fn shim_clear_cache(start: *mut u8, end: *mut u8) {
    sim::flush(start as u64, end as u64);
}

pub fn lock_held() -> bool {
    crate::interface::injector::__verif_lock_held()
}

/// When false, simulated writes are not required to happen under the injector lock
/// (harnesses that drive `injector_core` directly, below the public API).
pub static mut REQUIRE_LOCK: bool = false;

/// stub for `std::ptr::copy_nonoverlapping`
pub unsafe fn shim_copy<T>(src: *const T, dst: *mut T, count: usize) {
    let n = count * core::mem::size_of::<T>();
    let (s, d) = (src as *const u8, dst as *mut u8);
    let ssim = sim::is_sim(s as u64);
    let dsim = sim::is_sim(d as u64);
    if !ssim && !dsim {
        core::intrinsics::copy_nonoverlapping(s, d, n);
        return;
    }
    let mut tmp = [0u8; sim::RLEN];
    if ssim {
        sim::read_block(s as u64, &mut tmp, n);
    } else {
        assert!(
            n <= sim::RLEN,
            "VERIF[C03]: write longer than the designated entry slot / trampoline block"
        );
        core::intrinsics::copy_nonoverlapping(s, tmp.as_mut_ptr(), n);
    }
    if dsim {
        let held = if REQUIRE_LOCK { lock_held() } else { true };
        sim::write_block(d as u64, &tmp, n, held);
    } else {
        core::intrinsics::copy_nonoverlapping(tmp.as_ptr(), d, n);
    }
}

/// symbolic `std::thread::panicking()`
pub static mut PANICKING: bool = false;
pub fn shim_panicking() -> bool {
    unsafe { PANICKING }
}

/// An arbitrary user-space code address for a function entry with `slot` bytes modelled.
pub fn any_entry_addr() -> u64 {
    let f: u64 = kani::any();
    kani::assume(f >= 0x1000 && f < (1u64 << 46));
    f
}

/// do two 24-byte windows starting at a and b overlap?
pub fn windows_overlap(a: u64, b: u64) -> bool {
    a.abs_diff(b) < sim::RLEN as u64
}
