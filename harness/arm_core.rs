//! 32-bit ARM (variant arm-linux): the entry patch for all 32-bit (f, t), A32 and both T32 alignments.
//! Draw order: f (u32), entry bytes[24], t (u32).
use crate::injector_core::common::*;
use crate::injector_core::patch_arm::*;
use crate::injector_core::patch_trait::*;
use crate::verif::armdec::*;
use crate::verif::rt::*;
use libc::sim;
use std::ptr::NonNull;

unsafe fn fp(a: u32) -> FuncPtrInternal {
    FuncPtrInternal::new(NonNull::new(a as usize as *mut ()).unwrap())
}

unsafe fn arm_entry(thumb: bool, misaligned: bool) {
    sim::reset();
    sim::S.NE_ACT = 1;
    sim::S.NJ_ACT = 0;
    sim::S.PAGE = 4096;
    let f: u32 = kani::any();
    kani::assume(f >= 0x1000 && f < 0xFFFF_E000);
    if thumb {
        kani::assume(f & 1 == 1);
        kani::assume(((f - 1) & 3 != 0) == misaligned);
    } else {
        kani::assume(f & 3 == 0);
    }
    let entry = (f & !1) as u64;
    let orig: [u8; sim::RLEN] = kani::any();
    sim::register_entry(0, entry, 16, orig);
    let t: u32 = kani::any();
    kani::assume(t != 0);
    let g = PatchArm::replace_function_with_other_function(fp(f), fp(t));

    let mut code = [0u8; 16];
    let mut k = 0;
    while k < 16 {
        code[k] = sim::ENT[0].bytes[k];
        k += 1;
    }
    let r = if thumb { run_t32(entry as u32, &code) } else { run_a32(entry as u32, &code) };
    assert!(r.is_some(), "VERIF[C16]: the bytes written at the entry do not decode to a literal load followed by BX");
    let r = r.unwrap();
    assert!(r.dest == t, "VERIF[C16]: the word the load actually reads is not the fake's address (Thumb bit included)");
    assert!(r.extent <= 12, "VERIF[C16]: the sequence executes or reads bytes beyond the 12 that were written");
    // saved bytes cover exactly the overwritten range: bytes 12.. unchanged now, and everything restored on drop
    let mut k = 12;
    while k < 16 {
        assert!(sim::ENT[0].bytes[k] == orig[k], "VERIF[C16,C03]: bytes beyond the 12-byte patch were modified");
        k += 1;
    }
    assert!(sim::all_clean(), "VERIF[C17]: bytes written during installation are not covered by a later flush");
    kani::cover!(t & 1 == 1, "COVER: fake in Thumb state");
    kani::cover!(t & 1 == 0, "COVER: fake in ARM state");
    kani::cover!((f & 4095) > 4096 - 12, "COVER: entry patch straddles a page boundary");
    // register discipline
    assert!(r.written & 0xF == 0, "VERIF[C13]: the entry sequence writes an argument register r0-r3");
    assert!(r.written & (1 << 13) == 0 && r.written & (1 << 14) == 0, "VERIF[C16,C13]: the entry sequence writes sp or lr");
    if thumb {
        assert!(r.written & (1u32 << 4) == 0, "VERIF[C16,C13]: the Thumb entry sequence writes r4, which AAPCS requires a callee to preserve");
        assert!(r.written & (1u32 << 5) == 0, "VERIF[C16,C13]: the Thumb entry sequence writes r5, which AAPCS requires a callee to preserve");
        assert!(r.written & (1u32 << 6) == 0, "VERIF[C16,C13]: the Thumb entry sequence writes r6, which AAPCS requires a callee to preserve");
        assert!(r.written & (1u32 << 7) == 0, "VERIF[C16,C13]: the Thumb entry sequence writes r7, which AAPCS requires a callee to preserve");
        assert!(r.written & (1u32 << 8) == 0, "VERIF[C16,C13]: the Thumb entry sequence writes r8, which AAPCS requires a callee to preserve");
        assert!(r.written & (1u32 << 9) == 0, "VERIF[C16,C13]: the Thumb entry sequence writes r9, which AAPCS requires a callee to preserve");
        assert!(r.written & (1u32 << 10) == 0, "VERIF[C16,C13]: the Thumb entry sequence writes r10, which AAPCS requires a callee to preserve");
        assert!(r.written & (1u32 << 11) == 0, "VERIF[C16,C13]: the Thumb entry sequence writes r11, which AAPCS requires a callee to preserve");
    } else {
        assert!(r.written & (1u32 << 4) == 0, "VERIF[C16,C13]: the A32 entry sequence writes r4, which AAPCS requires a callee to preserve");
        assert!(r.written & (1u32 << 5) == 0, "VERIF[C16,C13]: the A32 entry sequence writes r5, which AAPCS requires a callee to preserve");
        assert!(r.written & (1u32 << 6) == 0, "VERIF[C16,C13]: the A32 entry sequence writes r6, which AAPCS requires a callee to preserve");
        assert!(r.written & (1u32 << 7) == 0, "VERIF[C16,C13]: the A32 entry sequence writes r7, which AAPCS requires a callee to preserve");
        assert!(r.written & (1u32 << 8) == 0, "VERIF[C16,C13]: the A32 entry sequence writes r8, which AAPCS requires a callee to preserve");
        assert!(r.written & (1u32 << 9) == 0, "VERIF[C16,C13]: the A32 entry sequence writes r9, which AAPCS requires a callee to preserve");
        assert!(r.written & (1u32 << 10) == 0, "VERIF[C16,C13]: the A32 entry sequence writes r10, which AAPCS requires a callee to preserve");
        assert!(r.written & (1u32 << 11) == 0, "VERIF[C16,C13]: the A32 entry sequence writes r11, which AAPCS requires a callee to preserve");
    }
    drop(g);
    let mut k = 0;
    while k < 16 {
        assert!(sim::ENT[0].bytes[k] == orig[k], "VERIF[C16,C02]: the saved original bytes do not cover exactly the overwritten range (entry differs after drop)");
        k += 1;
    }
    assert!(sim::all_clean(), "VERIF[C17]: restored bytes are not covered by a later flush");
    assert!(sim::live_jits() == 0, "VERIF[C12]: a mapping created by the installation is still live after drop");
}

macro_rules! arm_harness {
    ($name:ident, $thumb:expr, $mis:expr) => {
        #[kani::proof]
        #[kani::unwind(26)]
        #[kani::stub(std::ptr::copy_nonoverlapping, shim_copy)]
        #[kani::stub(crate::injector_core::linuxapi::__clear_cache, shim_clear_cache)]
        #[kani::stub(<*mut u8>::add, shim_add)]
        fn $name() {
            unsafe { arm_entry($thumb, $mis) }
        }
    };
}
arm_harness!(arm_core_a32, false, false);
arm_harness!(arm_core_t32_aligned, true, false);
arm_harness!(arm_core_t32_misaligned, true, true);
