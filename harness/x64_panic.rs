//! C05 / C04: a panic at any point of a scripted test body while fakes are installed.
//! Unwinding is modelled as what it is at the language level: the scope is left early while
//! std::thread::panicking() is true (stubbed by a symbolic flag; std's own callers see it too,
//! so the process-wide mutex really becomes poisoned).  x86-64 Linux variant.
//! Script: new; install A (redirect); install B (fake! with times: N through will_execute);
//!         k calls of B's fake; [panic injected at position p]; scope exit; second lifetime.
use crate::interface::injector::*;
use crate::verif::rt::*;
use crate::verif::x64dec::*;
use libc::sim;
use std::sync::atomic::{AtomicUsize, Ordering};

const SIG: &str = "fn() -> bool";
fn budget() -> usize {
    unsafe { sim::S.CELL[0] as usize }
}
fn build() -> (FuncPtr, CallCountVerifier) {
    crate::fake!(
        func_type: fn() -> bool,
        returns: true,
        times: budget()
    )
}

unsafe fn panic_at<const P: u8>() {
    {
        sim::reset();
        sim::S.NE_ACT = 2;
        sim::S.NJ_ACT = 2;
        sim::S.PAGE = 4096;
        sim::S.COOP_RANGE = crate::verif::VARIANT_RANGE;
        sim::S.REQUIRE_LOCK = true;
        let f0 = any_entry_addr();
        let f1 = any_entry_addr();
        kani::assume(f0.abs_diff(f1) >= 16);
        let b0: [u8; sim::RLEN] = kani::any();
        let b1: [u8; sim::RLEN] = kani::any();
        sim::register_entry(0, f0, 16, b0);
        sim::register_entry(1, f1, 16, b1);
        let n: usize = kani::any();
        kani::assume(n <= 1);
        sim::S.CELL[0] = n as u64;
        let k: usize = kani::any(); // calls made before the panic
        kani::assume(k <= 2);
        let p: u8 = P; // position of the injected panic: 0..=4 ; 5 = no panic (normal exit)
        let t: u64 = kani::any();
        kani::assume(t != 0 && t < (1u64 << 63) && t.abs_diff(f0) >= 24 && t.abs_diff(f1) >= 24);
        {
            let mut inj = InjectorPP::new();
            // p == 0: panic right after creation
            if p >= 1 {
                inj.when_called(FuncPtr::new(f0 as *const (), SIG)).will_execute_raw(FuncPtr::new(t as *const (), SIG));
            }
            if p >= 2 {
                let pair = build();
                let raw = pair.0.__verif_raw();
                inj.when_called(FuncPtr::new(f1 as *const (), SIG)).will_execute(pair);
                if p >= 3 {
                    let fk: fn() -> bool = std::mem::transmute::<*const (), fn() -> bool>(raw);
                    let mut i = 0;
                    while i < 2 {
                        // calls within the budget return; a call beyond it panics inside the fake,
                        // which is one more way of reaching the unwinding exit below
                        if i < k && i < n {
                            fk();
                        }
                        i += 1;
                    }
                }
            }
            // the injected panic (user code, or the over-call above): unwinding starts here.
            // p == 5: no panic; then the pending expectation must be met to stay on the quiet path
            if p <= 4 {
                sim::S.PANICKING = true;
            } else {
                kani::assume(k >= n); // exactly n calls were made
            }
            kani::cover!(true, "COVER: scope exit reached");
            kani::cover!(p >= 2 && n > 0 && k == 0, "COVER: exit with an unsatisfied call-count expectation pending");
        }
        let was_panicking = sim::S.PANICKING;
        sim::S.PANICKING = false;
        // (b) everything restored, nothing leaked, lock free
        let mut i = 0;
        while i < 16 {
            assert!(sim::ENT[0].bytes[i] == b0[i] && sim::ENT[1].bytes[i] == b1[i], "VERIF[C05,C02,C04]: a faked function is not restored after unwinding out of the injector's scope (the next holder of the lock would still see the fake)");
            i += 1;
        }
        assert!(sim::live_jits() == 0, "VERIF[C05,C12]: a trampoline is still mapped after unwinding out of the injector's scope");
        assert!(!lock_held(), "VERIF[C05,C04]: the process-wide guard is still held after unwinding out of the injector's scope");
        assert!(sim::all_clean(), "VERIF[C17]: restored bytes are not covered by a later flush");
        // (c) afterwards a new injector / preventer can be created (full use: after_panic_usable)
        {
            let inj2 = InjectorPP::new();
            assert!(lock_held(), "VERIF[C05,C04]: an injector created after a panic does not hold the process-wide guard");
        }
        assert!(!lock_held(), "VERIF[C05,C04]: the lifetime that followed a panic did not release the guard");
        {
            let pv = InjectorPP::prevent();
            assert!(lock_held() && pv.is_active(), "VERIF[C05,C04]: a preventer created after a panic does not hold the process-wide guard");
        }
        assert!(!lock_held(), "VERIF[C04]: the process-wide lock is still held after the preventer is dropped");
    }
}

macro_rules! panic_harness {
    ($name:ident, $p:literal) => {
        #[kani::proof]
        #[kani::unwind(26)]
        #[kani::stub(std::ptr::copy_nonoverlapping, shim_copy)]
        #[kani::stub(crate::injector_core::linuxapi::__clear_cache, shim_clear_cache)]
        #[kani::stub(<*mut u8>::add, shim_add)]
        #[kani::stub(std::thread::panicking, shim_panicking)]
        #[kani::stub(crate::injector_core::common::allocate_jit_memory, shim_allocate_jit_memory)]
        fn $name() {
            unsafe { panic_at::<$p>() }
        }
    };
}
panic_harness!(panic_at_p0, 0);
panic_harness!(panic_at_p1, 1);
panic_harness!(panic_at_p2, 2);
panic_harness!(panic_at_p3, 3);
panic_harness!(panic_at_p4, 4);
panic_harness!(normal_exit_p5, 5);

/// A call-count mismatch at NORMAL scope exit makes the injector panic.  That panic must come after
/// the faked functions have been restored: whatever unwinds from it can no longer restore in the
/// right order (the stub of panicking() is the observation point, see rt.rs).
#[kani::proof]
#[kani::unwind(26)]
#[kani::stub(std::ptr::copy_nonoverlapping, shim_copy)]
#[kani::stub(crate::injector_core::linuxapi::__clear_cache, shim_clear_cache)]
#[kani::stub(<*mut u8>::add, shim_add)]
#[kani::stub(std::thread::panicking, shim_panicking)]
#[kani::stub(crate::injector_core::common::allocate_jit_memory, shim_allocate_jit_memory)]
fn verification_panic_comes_after_restore() {
    unsafe {
        sim::reset();
        sim::S.NE_ACT = 1;
        sim::S.NJ_ACT = 2;
        sim::S.PAGE = 4096;
        sim::S.COOP_RANGE = crate::verif::VARIANT_RANGE;
        sim::S.REQUIRE_LOCK = true;
        let f0 = any_entry_addr();
        sim::register_entry(0, f0, 16, kani::any());
        sim::S.CELL[0] = 1; // times: 1, and no call is made
        let t: u64 = kani::any();
        kani::assume(t != 0 && t < (1u64 << 63) && t.abs_diff(f0) >= 24);
        {
            let mut inj = InjectorPP::new();
            inj.when_called(FuncPtr::new(f0 as *const (), SIG)).will_execute_raw(FuncPtr::new(t as *const (), SIG));
            inj.when_called(FuncPtr::new(f0 as *const (), SIG)).will_execute(build());
            sim::S.VERIFY_EXPECTS_RESTORED = true;
        }
        assert!(false, "VERIF[C06]: a call count different from the expectation went unreported at scope exit");
    }
}

/// after a lifetime that ended by unwinding (mutex poisoned), a new injector works normally
#[kani::proof]
#[kani::unwind(26)]
#[kani::stub(std::ptr::copy_nonoverlapping, shim_copy)]
#[kani::stub(crate::injector_core::linuxapi::__clear_cache, shim_clear_cache)]
#[kani::stub(<*mut u8>::add, shim_add)]
#[kani::stub(std::thread::panicking, shim_panicking)]
#[kani::stub(crate::injector_core::common::allocate_jit_memory, shim_allocate_jit_memory)]
fn after_panic_usable() {
    unsafe {
        sim::reset();
        sim::S.NE_ACT = 1;
        sim::S.NJ_ACT = 1;
        sim::S.PAGE = 4096;
        sim::S.COOP_RANGE = crate::verif::VARIANT_RANGE;
        sim::S.REQUIRE_LOCK = true;
        let f0 = any_entry_addr();
        let b0: [u8; sim::RLEN] = kani::any();
        sim::register_entry(0, f0, 16, b0);
        let preventer_first: bool = kani::any();
        if preventer_first {
            // the very first guard of the process is a preventer: it must hold the lock like any other
            let pv = InjectorPP::prevent();
            assert!(lock_held() && pv.is_active(), "VERIF[C04]: a live preventer does not hold the process-wide lock (first guard ever taken in the process)");
            sim::S.PANICKING = true;
            drop(pv);
        } else {
            let inj = InjectorPP::new();
            sim::S.PANICKING = true;
            drop(inj);
        }
        sim::S.PANICKING = false;
        // NOTE: Kani compiles std with panic=abort, where poisoning is compiled out: the Err arm of
        // NoPoisonMutex::lock is not reachable here (covered by the native premise poison_recovery).
        assert!(!lock_held(), "VERIF[C05,C04]: the process-wide guard is still held after unwinding");
        {
            let mut inj2 = InjectorPP::new();
            assert!(lock_held(), "VERIF[C05,C04]: an injector created after a panic does not hold the process-wide guard");
            inj2.when_called(FuncPtr::new(f0 as *const (), SIG)).will_return_boolean(true);
            let mut c = any_cpu(f0);
            let ra = c.ret_addr;
            kani::assume(!inside_some_region(ra) && sim::find_jit(ra).is_none() && sim::find_entry(ra).is_none());
            run(&mut c, 4);
            assert!(!c.bad && c.returned && c.pc == ra && c.regs[0] & 0xFF == 1, "VERIF[C05]: a fake installed after a panic is not in effect");
        }
        let mut i = 0;
        while i < 16 {
            assert!(sim::ENT[0].bytes[i] == b0[i], "VERIF[C05,C02]: the function is not restored after the lifetime that followed a panic");
            i += 1;
        }
        assert!(sim::live_jits() == 0 && !lock_held(), "VERIF[C05,C04]: the lifetime that followed a panic did not release its trampoline or the guard");
    }
}

/// an installation whose mprotect is refused by the kernel must panic before the function is written
#[kani::proof]
#[kani::unwind(26)]
#[kani::stub(std::ptr::copy_nonoverlapping, shim_copy)]
#[kani::stub(crate::injector_core::linuxapi::__clear_cache, shim_clear_cache)]
#[kani::stub(<*mut u8>::add, shim_add)]
#[kani::stub(crate::injector_core::common::allocate_jit_memory, shim_allocate_jit_memory)]
fn mprotect_failure_leaves_target_untouched() {
    unsafe {
        sim::reset();
        sim::S.NE_ACT = 1;
        sim::S.NJ_ACT = 1;
        sim::S.PAGE = 4096;
        sim::S.COOP_RANGE = crate::verif::VARIANT_RANGE;
        sim::S.REQUIRE_LOCK = true;
        sim::S.MPROTECT_MAY_FAIL = true;
        let f0 = any_entry_addr();
        let b0: [u8; sim::RLEN] = kani::any();
        sim::register_entry(0, f0, 16, b0);
        let mut inj = InjectorPP::new();
        inj.when_called(FuncPtr::new(f0 as *const (), SIG)).will_return_boolean(kani::any());
        // returned: then every mprotect succeeded and the text was writable when written (model assertion C01)
        assert!(sim::ENT[0].nwrites == 1, "VERIF[C05]: installation returned without installing");
        core::mem::forget(inj);
    }
}
