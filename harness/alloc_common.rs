//! Shared set-up for the allocator harnesses (C11): real allocate_jit_memory + real entry branch.
use crate::verif::rt::*;
use libc::sim;

/// any-kernel with real page sizes: calls 1..force-1 fail or return an arbitrary free page,
/// call `force` succeeds strictly inside the range
pub unsafe fn setup_any(page: u64, force: u32, align: u64) -> (u64, [u8; sim::RLEN]) {
    sim::reset();
    sim::S.NE_ACT = 1;
    sim::S.NJ_ACT = force as usize;
    sim::S.PAGE = page;
    sim::S.MODE = 1;
    sim::S.ANY_FORCE_AT = force;
    sim::S.ALLOC_STRICT = true;
    let f = any_entry_addr();
    kani::assume(f & (align - 1) == 0);
    let bytes: [u8; sim::RLEN] = kani::any();
    sim::register_entry(0, f, 16, bytes);
    sim::S.COOP_CENTER = f;
    sim::S.COOP_RANGE = crate::verif::VARIANT_RANGE;
    (f, bytes)
}

/// layout-kernel with a scaled page so that the whole search window fits the unwinding bound
pub unsafe fn setup_layout(page: u64, align: u64, slots: usize) -> (u64, [u8; sim::RLEN]) {
    sim::reset();
    sim::S.NE_ACT = 1;
    sim::S.NJ_ACT = slots;
    sim::S.PAGE = page;
    sim::S.MODE = 2;
    sim::S.ALLOC_STRICT = true;
    let range = crate::verif::VARIANT_RANGE;
    let f = any_entry_addr();
    kani::assume(f & (align - 1) == 0);
    let bytes: [u8; sim::RLEN] = kani::any();
    sim::register_entry(0, f, 16, bytes);
    sim::S.LAYOUT = kani::any();
    kani::assume(sim::S.LAYOUT <= 2);
    // the neighbourhood the layout describes: every page a hint of the real loop can fall into
    sim::S.LAYOUT_LO = sim::page_floor(f.saturating_sub(range));
    sim::S.LAYOUT_HI = sim::page_floor(f + range);
    let free: u64 = kani::any();
    kani::assume(free & (page - 1) == 0 && free >= sim::S.LAYOUT_LO && free <= sim::S.LAYOUT_HI && free >= page);
    sim::S.LAYOUT_FREE = free;
    // what the kernel hands out when the hinted page is taken: nothing, or a page far away
    let fb: u64 = kani::any();
    kani::assume(fb == 0 || (fb & (page - 1) == 0 && fb >= page && fb < sim::USER_TOP - page && fb.abs_diff(f) > range + page));
    sim::S.LAYOUT_FALLBACK = fb;
    (f, bytes)
}
