//! x86-64 Windows variant (simulated): the 12-byte long entry patch and the +-2 GiB placement.
//! The six WinAPI externs are stubbed onto the same simulated OS.  Draw order as x64_core.
use crate::injector_core::common::*;
use crate::injector_core::patch_amd64::*;
use crate::injector_core::patch_trait::*;
use crate::verif::rt::*;
use crate::verif::x64dec::*;
use libc::c_void;
use libc::sim;
use std::ptr::NonNull;

pub unsafe fn s_valloc(a: *mut c_void, len: usize, _t: u32, _p: u32) -> *mut c_void {
    let r = libc::mmap(a, len, libc::PROT_READ | libc::PROT_WRITE | libc::PROT_EXEC, 0, -1, 0);
    if r == libc::MAP_FAILED {
        core::ptr::null_mut()
    } else {
        r
    }
}
pub unsafe fn s_vprotect(a: *mut c_void, len: usize, prot: u32, old: *mut u32) -> i32 {
    *old = 0x20;
    let p = if prot == 0x40 { 7 } else { 5 };
    (libc::mprotect(a, len, p) == 0) as i32
}
pub unsafe fn s_vfree(a: *mut c_void, len: usize, kind: u32) -> i32 {
    // MEM_RELEASE requires dwSize == 0 and frees the whole reservation
    assert!(len == 0 && kind == 0x8000, "VERIF[C12]: VirtualFree(MEM_RELEASE) called with a non-zero size or another free type");
    let l = match sim::find_jit(a as u64) {
        Some(i) => sim::JIT[i].len,
        None => 1,
    };
    (libc::munmap(a, l) == 0) as i32
}
pub unsafe fn s_flush(_h: *mut c_void, a: *const c_void, n: usize) -> i32 {
    sim::flush(a as u64, (a as u64).wrapping_add(n as u64));
    1
}
pub unsafe fn s_proc() -> *mut c_void {
    8 as *mut c_void
}
pub unsafe fn s_page() -> usize {
    4096
}

unsafe fn fp(a: u64) -> FuncPtrInternal {
    FuncPtrInternal::new(NonNull::new(a as *mut ()).unwrap())
}

#[kani::proof]
#[kani::unwind(26)]
#[kani::stub(std::ptr::copy_nonoverlapping, shim_copy)]
#[kani::stub(<*mut u8>::add, shim_add)]
#[kani::stub(<*mut u8>::offset_from, shim_offset_from)]
#[kani::stub(crate::injector_core::winapi::VirtualAlloc, s_valloc)]
#[kani::stub(crate::injector_core::winapi::VirtualProtect, s_vprotect)]
#[kani::stub(crate::injector_core::winapi::VirtualFree, s_vfree)]
#[kani::stub(crate::injector_core::winapi::FlushInstructionCache, s_flush)]
#[kani::stub(crate::injector_core::winapi::GetCurrentProcess, s_proc)]
#[kani::stub(crate::injector_core::winapi::get_page_size, s_page)]
#[kani::stub(crate::injector_core::common::allocate_jit_memory, shim_allocate_jit_memory)]
fn win_core_redirect() {
    unsafe {
        sim::reset();
        sim::S.NE_ACT = 1;
        sim::S.NJ_ACT = 1;
        sim::S.PAGE = 4096;
        sim::S.COOP_RANGE = crate::verif::VARIANT_RANGE; // +-2 GiB
        let f = any_entry_addr();
        kani::assume(f >= (1u64 << 33));
        let orig: [u8; sim::RLEN] = kani::any();
        sim::register_entry(0, f, 16, orig);
        let t: u64 = kani::any();
        kani::assume(t != 0 && t < (1u64 << 63) && !windows_overlap(t, f));
        let g = PatchAmd64::replace_function_with_other_function(fp(f), fp(t));
        kani::assume(!inside_some_region(t) && sim::find_jit(t).is_none());
        let j = sim::JIT[0].base;
        let c0 = any_cpu(f);
        let mut c = c0;
        run(&mut c, 4);
        assert!(!c.bad, "VERIF[C01]: patched entry/trampoline do not decode to a chain of branches");
        assert!(c.pc == t && !c.returned, "VERIF[C01]: control does not arrive at the fake");
        kani::cover!(sim::ENT[0].bytes[0] == 0x48, "COVER: 12-byte entry form");
        kani::cover!(sim::ENT[0].bytes[0] == 0xE9, "COVER: 5-byte entry form");
        kani::cover!(sim::ENT[0].bytes[0] == 0x48 && (f & 4095) > 4096 - 12, "COVER: 12-byte entry straddles a page boundary");
        kani::cover!(j.abs_diff(f) > 0x7FFF_0000, "COVER: trampoline almost 2 GiB away");
        assert!(transparent_except_rax(&c0, &c), "VERIF[C13]: a register other than rax, or the stack pointer, differs on arrival at the fake");
        assert!(!c.fetched_dirty && sim::all_clean(), "VERIF[C17]: bytes written during installation are not covered by a later flush");
        let plen: usize = if sim::ENT[0].bytes[0] == 0xE9 { 5 } else { 12 };
        let mut k = 0;
        while k < 16 {
            if k >= plen {
                assert!(sim::ENT[0].bytes[k] == orig[k], "VERIF[C03]: byte behind the entry patch changed");
            }
            k += 1;
        }
        drop(g);
        let mut k = 0;
        while k < 16 {
            assert!(sim::ENT[0].bytes[k] == orig[k], "VERIF[C02]: entry bytes differ from the original after drop");
            k += 1;
        }
        assert!(sim::all_clean(), "VERIF[C17]: restored bytes are not covered by a later flush");
        assert!(sim::live_jits() == 0 && sim::S.N_MUNMAP == 1, "VERIF[C12]: trampoline not released exactly once on drop");
    }
}
