//! x86-64 Linux: the REAL allocate_jit_memory_unix retry loop together with the real entry patch.
//! Draw order: f, bytes[24], (layout: kind, free, fallback), value, model draws.
use crate::injector_core::common::*;
use crate::injector_core::patch_amd64::*;
use crate::injector_core::patch_trait::*;
use crate::verif::alloc_common::*;
use crate::verif::rt::*;
use crate::verif::x64dec::*;
use libc::sim;
use std::ptr::NonNull;

unsafe fn fp(a: u64) -> FuncPtrInternal {
    FuncPtrInternal::new(NonNull::new(a as *mut ()).unwrap())
}

unsafe fn after_install(f: u64) {
    // exactly one live mapping: the accepted one; everything else was given back
    assert!(sim::live_jits() == 1, "VERIF[C11,C12]: after a successful installation the live mappings are not exactly the accepted trampoline");
    assert!(sim::S.N_MUNMAP + 1 == sim::S.N_MMAP_OK, "VERIF[C11,C12]: a placement that was tried and rejected was not given back");
    let j = match sim::find_live() {
        Some(i) => sim::JIT[i].base,
        None => 0,
    };
    let mut c = any_cpu(f);
    run_one_block(&mut c);
    assert!(!c.bad && !c.returned && c.pc == j, "VERIF[C11,C01]: the branch written into the function does not land on the trampoline that was accepted");
}

macro_rules! any_harness {
    ($name:ident, $page:expr) => {
        #[kani::proof]
        #[kani::unwind(26)]
        #[kani::stub(std::ptr::copy_nonoverlapping, shim_copy)]
        #[kani::stub(crate::injector_core::linuxapi::__clear_cache, shim_clear_cache)]
        #[kani::stub(<*mut u8>::add, shim_add)]
        fn $name() {
            unsafe {
                let (f, orig) = setup_any($page, 3, 1);
                sim::S.NJ_ACT = 1;
                let g = PatchAmd64::replace_function_return_boolean(fp(f), kani::any());
                after_install(f);
                kani::cover!(sim::S.N_MMAP == 3 && sim::S.N_MUNMAP == 2, "COVER: two placements rejected and given back");
                kani::cover!(sim::S.N_MMAP == 3 && sim::S.N_MMAP_OK == 1, "COVER: two mmap failures");
                kani::cover!(sim::S.N_MMAP == 1, "COVER: first placement accepted");
                // the guard built on the real allocator's placement restores everything it overwrote
                drop(g);
                let mut k = 0;
                while k < 16 {
                    assert!(sim::ENT[0].bytes[k] == orig[k], "VERIF[C02,C03]: entry bytes differ from the original after drop (placement chosen by the real allocator)");
                    k += 1;
                }
                assert!(sim::live_jits() == 0, "VERIF[C12]: trampoline placed by the real allocator not released on drop");
                assert!(sim::all_clean(), "VERIF[C17]: restored bytes are not covered by a later flush");
            }
        }
    };
}
any_harness!(x64_alloc_any_4k, 4096);
any_harness!(x64_alloc_any_16k, 16384);
any_harness!(x64_alloc_any_64k, 65536);

macro_rules! layout_harness {
    ($name:ident, $page:expr, $unwind:literal, $slots:expr) => {
        #[kani::proof]
        #[kani::unwind($unwind)]
        #[kani::stub(std::ptr::copy_nonoverlapping, shim_copy)]
        #[kani::stub(crate::injector_core::linuxapi::__clear_cache, shim_clear_cache)]
        #[kani::stub(<*mut u8>::add, shim_add)]
        fn $name() {
            unsafe {
                let (f, orig) = setup_layout($page, 1, $slots);
                let g = PatchAmd64::replace_function_return_boolean(fp(f), kani::any());
                // reaching this point: the installation returned
                assert!(sim::S.LAYOUT != 1, "VERIF[C11]: the installation returned although no page within reach was free");
                after_install(f);
                kani::cover!(sim::S.LAYOUT == 0, "COVER: empty neighbourhood");
                kani::cover!(sim::S.LAYOUT == 2, "COVER: exactly one free page, found");
                kani::cover!(sim::S.LAYOUT == 2 && sim::S.LAYOUT_FREE > f, "COVER: the free page is above the function");
                kani::cover!(sim::S.LAYOUT == 2 && sim::S.LAYOUT_FREE == sim::S.LAYOUT_HI, "COVER: the free page is the last page of the window");
                kani::cover!(sim::S.LAYOUT == 2 && sim::S.N_MUNMAP > 0, "COVER: far fallbacks were rejected and given back before the free page was found");
                kani::cover!(f < crate::verif::VARIANT_RANGE, "COVER: target below 128 MiB (window clipped at zero)");
                // the guard built on the real allocator's placement restores everything it overwrote
                drop(g);
                let mut k = 0;
                while k < 16 {
                    assert!(sim::ENT[0].bytes[k] == orig[k], "VERIF[C02,C03]: entry bytes differ from the original after drop (placement chosen by the real allocator)");
                    k += 1;
                }
                assert!(sim::live_jits() == 0, "VERIF[C12]: trampoline placed by the real allocator not released on drop");
                assert!(sim::all_clean(), "VERIF[C17]: restored bytes are not covered by a later flush");
            }
        }
    };
}
layout_harness!(x64_alloc_layout_16m, 1u64 << 24, 26, 1);
layout_harness!(x64_alloc_layout_8m, 1u64 << 23, 36, 1);
