//! The checks that run before anything is modified (x86-64 Linux variant):
//! C09 signature equality gate, FuncPtr null check, C10 textual bool gate, C05 "refused target untouched".
use crate::interface::injector::*;
use crate::verif::rt::*;
use libc::sim;

unsafe fn setup() -> u64 {
    sim::reset();
    sim::S.NE_ACT = 1;
    sim::S.NJ_ACT = 1;
    sim::S.PAGE = 4096;
    sim::S.COOP_RANGE = crate::verif::VARIANT_RANGE;
    sim::S.REQUIRE_LOCK = true;
    let f = any_entry_addr();
    sim::register_entry(0, f, 16, kani::any());
    f
}

/// a symbolic ASCII string of length <= N in static storage
unsafe fn any_sig<const N: usize>(slot: usize) -> &'static str {
    let len: usize = kani::any();
    kani::assume(len <= N);
    let mut i = 0;
    while i < N {
        let b: u8 = kani::any();
        kani::assume(b < 0x80);
        sim::S.SIGBUF[slot][i] = b;
        i += 1;
    }
    core::str::from_utf8_unchecked(&sim::S.SIGBUF[slot][..len])
}

unsafe fn bytes_equal(a: &str, b: &str) -> bool {
    let (x, y) = (a.as_bytes(), b.as_bytes());
    if x.len() != y.len() {
        return false;
    }
    let mut eq = true;
    let mut i = 0;
    while i < x.len() {
        if x[i] != y[i] {
            eq = false;
        }
        i += 1;
    }
    eq
}

unsafe fn raw_gate<const N: usize>(must_differ: bool) {
    let f = setup();
    let sa = any_sig::<N>(0);
    let sb = any_sig::<N>(1);
    let equal = bytes_equal(sa, sb);
    kani::assume(equal != must_differ);
    let t: u64 = kani::any();
    kani::assume(t != 0 && t < (1u64 << 63));
    let mut inj = InjectorPP::new();
    sim::S.NO_TOUCH = must_differ;
    inj.when_called(FuncPtr::new(f as *const (), sa)).will_execute_raw(FuncPtr::new(t as *const (), sb));
    // reaching this point: the installation was accepted
    assert!(!must_differ, "VERIF[C09]: a replacement whose recorded signature differs from the target's was accepted");
    assert!(sim::ENT[0].nwrites == 1 && sim::live_jits() == 1, "VERIF[C09]: an identically written signature was accepted but nothing was installed");
    kani::cover!(sa.len() == N, "COVER: signatures of maximal length");
    kani::cover!(sa.len() == 0, "COVER: both signatures empty (unchecked with unchecked)");
    core::mem::forget(inj);
}

macro_rules! gate_harness {
    ($name:ident, $n:literal, $differ:expr, $unwind:literal) => {
        #[kani::proof]
        #[kani::unwind($unwind)]
        #[kani::stub(std::ptr::copy_nonoverlapping, shim_copy)]
        #[kani::stub(crate::injector_core::linuxapi::__clear_cache, shim_clear_cache)]
        #[kani::stub(<*mut u8>::add, shim_add)]
        #[kani::stub(crate::injector_core::common::allocate_jit_memory, shim_allocate_jit_memory)]
        fn $name() {
            unsafe { raw_gate::<$n>($differ) }
        }
    };
}
gate_harness!(sig_gate_differs_2, 2, true, 26);
gate_harness!(sig_gate_equal_2, 2, false, 26);
gate_harness!(sig_gate_differs_6, 6, true, 26);
gate_harness!(sig_gate_equal_6, 6, false, 26);
gate_harness!(sig_gate_differs_12, 12, true, 26);
gate_harness!(sig_gate_equal_12, 12, false, 26);

/// the async gate compares the same two strings (will_return_async)
#[kani::proof]
#[kani::unwind(26)]
#[kani::stub(std::ptr::copy_nonoverlapping, shim_copy)]
#[kani::stub(crate::injector_core::linuxapi::__clear_cache, shim_clear_cache)]
#[kani::stub(<*mut u8>::add, shim_add)]
#[kani::stub(crate::injector_core::common::allocate_jit_memory, shim_allocate_jit_memory)]
fn sig_gate_async_differs_6() {
    unsafe {
        let _f = setup();
        let sa = any_sig::<6>(0);
        let sb = any_sig::<6>(1);
        kani::assume(!bytes_equal(sa, sb));
        let t: u64 = kani::any();
        kani::assume(t != 0 && t < (1u64 << 63));
        let mut inj = InjectorPP::new();
        let fut = async { 7u32 };
        let pinned = std::pin::pin!(fut);
        sim::S.NO_TOUCH = true;
        inj.when_called_async((pinned, sa)).will_return_async(FuncPtr::new(t as *const (), sb));
        assert!(false, "VERIF[C09]: an async replacement whose recorded output signature differs from the target's was accepted");
        core::mem::forget(inj);
    }
}

fn gate_budget() -> usize {
    1
}
/// will_execute (the fake! path) compares signatures as well: a target whose recorded signature is
/// anything else than the fake's - in particular the EMPTY signature of the unchecked macros - is refused
#[kani::proof]
#[kani::unwind(26)]
#[kani::stub(std::ptr::copy_nonoverlapping, shim_copy)]
#[kani::stub(crate::injector_core::linuxapi::__clear_cache, shim_clear_cache)]
#[kani::stub(<*mut u8>::add, shim_add)]
#[kani::stub(crate::injector_core::common::allocate_jit_memory, shim_allocate_jit_memory)]
fn sig_gate_will_execute_differs_6() {
    unsafe {
        let f = setup();
        let sa = any_sig::<6>(0); // never equal to "fn() -> bool" (12 bytes); includes the empty signature
        let unchecked_api: bool = kani::any();
        let mut inj = InjectorPP::new();
        let pair = crate::fake!(func_type: fn() -> bool, returns: true, times: gate_budget());
        sim::S.NO_TOUCH = true;
        if unchecked_api {
            kani::assume(sa.len() == 0);
            inj.when_called_unchecked(FuncPtr::new(f as *const (), "")).will_execute(pair);
        } else {
            inj.when_called(FuncPtr::new(f as *const (), sa)).will_execute(pair);
        }
        assert!(false, "VERIF[C09]: will_execute accepted a type-carrying fake! for a target whose recorded signature differs (or is the empty signature of the unchecked macros)");
        core::mem::forget(inj);
    }
}

/// FuncPtr::new refuses a null pointer before anything else happens
#[kani::proof]
#[kani::unwind(26)]
fn null_pointer_refused() {
    unsafe {
        sim::reset();
        sim::S.NO_TOUCH = true;
        let _p = FuncPtr::new(core::ptr::null(), "fn()");
        assert!(false, "VERIF[C09]: FuncPtr::new accepted a null pointer");
    }
}

// ---------------------------------------------------------------------------------------------
// C10: forced boolean is only accepted for functions whose TOP-LEVEL return type is bool
// ---------------------------------------------------------------------------------------------

/// Independent reading of a fn-pointer type name: `<prefix>fn(<balanced>)[ -> <ret>]`.
/// Some(true/false): well formed, top-level return type is / is not `bool`.  None: not of that shape.
fn oracle_ret_is_bool(s: &[u8]) -> Option<bool> {
    if s.is_empty() || s[0] == b' ' || s[s.len() - 1] == b' ' {
        return None;
    }
    // locate the first "fn(" ; nothing before it may contain parentheses
    let mut i = 0;
    let mut found = false;
    while i + 3 <= s.len() {
        if s[i] == b'f' && s[i + 1] == b'n' && s[i + 2] == b'(' {
            found = true;
            break;
        }
        if s[i] == b'(' || s[i] == b')' {
            return None;
        }
        i += 1;
    }
    if !found {
        return None;
    }
    let mut depth = 0i32;
    let mut j = i + 2;
    let mut closed = false;
    while j < s.len() {
        if s[j] == b'(' {
            depth += 1;
        } else if s[j] == b')' {
            depth -= 1;
            if depth == 0 {
                closed = true;
                break;
            }
        }
        j += 1;
    }
    if !closed {
        return None;
    }
    let rest = &s[j + 1..];
    if rest.is_empty() {
        return Some(false); // unit return
    }
    if rest.len() < 5 || rest[0] != b' ' || rest[1] != b'-' || rest[2] != b'>' || rest[3] != b' ' {
        return None;
    }
    let r = &rest[4..];
    Some(r.len() == 4 && r[0] == b'b' && r[1] == b'o' && r[2] == b'o' && r[3] == b'l')
}

unsafe fn bool_gate<const N: usize>(want_bool: bool) {
    let f = setup();
    let len: usize = kani::any();
    kani::assume(len <= N);
    let mut i = 0;
    while i < N {
        let b: u8 = kani::any();
        kani::assume(b >= 0x20 && b < 0x7f);
        sim::S.SIGBUF[0][i] = b;
        i += 1;
    }
    let sig: &'static str = core::str::from_utf8_unchecked(&sim::S.SIGBUF[0][..len]);
    let verdict = oracle_ret_is_bool(&sim::S.SIGBUF[0][..len]);
    kani::assume(verdict == Some(want_bool));
    let mut inj = InjectorPP::new();
    sim::S.NO_TOUCH = !want_bool;
    inj.when_called(FuncPtr::new(f as *const (), sig)).will_return_boolean(kani::any());
    assert!(want_bool, "VERIF[C10]: a forced boolean result was accepted for a function whose return type is not bool");
    assert!(sim::ENT[0].nwrites == 1 && sim::live_jits() == 1, "VERIF[C10]: a bool-returning target was accepted but nothing was installed");
    kani::cover!(len == N, "COVER: signature of maximal length");
    core::mem::forget(inj);
}

/// necessary condition, independent of any parsing: a signature that does not even END in `bool`
/// (this includes the empty signature of the unchecked macros) can never qualify
#[kani::proof]
#[kani::unwind(26)]
#[kani::stub(std::ptr::copy_nonoverlapping, shim_copy)]
#[kani::stub(crate::injector_core::linuxapi::__clear_cache, shim_clear_cache)]
#[kani::stub(<*mut u8>::add, shim_add)]
#[kani::stub(crate::injector_core::common::allocate_jit_memory, shim_allocate_jit_memory)]
#[kani::stub(str::trim, shim_trim)]
fn bool_gate_refuses_not_ending_in_bool_8() {
    unsafe {
        let f = setup();
        let sig = any_sig::<8>(0);
        let b = sig.as_bytes();
        let n = b.len();
        let ends = n >= 4 && b[n - 4] == b'b' && b[n - 3] == b'o' && b[n - 2] == b'o' && b[n - 1] == b'l';
        kani::assume(!ends);
        let unchecked_api: bool = kani::any();
        let mut inj = InjectorPP::new();
        sim::S.NO_TOUCH = true;
        if unchecked_api {
            inj.when_called_unchecked(FuncPtr::new(f as *const (), sig)).will_return_boolean(kani::any());
        } else {
            inj.when_called(FuncPtr::new(f as *const (), sig)).will_return_boolean(kani::any());
        }
        assert!(false, "VERIF[C10]: a forced boolean result was accepted for a target whose recorded signature does not end in `bool` (e.g. the empty signature of the unchecked macros)");
        core::mem::forget(inj);
    }
}

macro_rules! bool_harness {
    ($name:ident, $n:literal, $want:expr, $unwind:literal) => {
        #[kani::proof]
        #[kani::unwind($unwind)]
        #[kani::stub(std::ptr::copy_nonoverlapping, shim_copy)]
        #[kani::stub(crate::injector_core::linuxapi::__clear_cache, shim_clear_cache)]
        #[kani::stub(<*mut u8>::add, shim_add)]
        #[kani::stub(crate::injector_core::common::allocate_jit_memory, shim_allocate_jit_memory)]
        #[kani::stub(str::trim, shim_trim)]
        fn $name() {
            unsafe { bool_gate::<$n>($want) }
        }
    };
}
bool_harness!(bool_gate_refuses_16, 16, false, 26);
bool_harness!(bool_gate_accepts_16, 16, true, 26);
bool_harness!(bool_gate_refuses_20, 20, false, 26);
bool_harness!(bool_gate_refuses_22, 22, false, 26);
bool_harness!(bool_gate_accepts_22, 22, true, 26);

// ---- exact-length variants: the length is concrete, only the content is symbolic.  The union
// ---- over all lengths is the same claim as the symbolic-length harness, but each instance stays
// ---- decidable even when the gate is implemented with heavier string machinery.
unsafe fn bool_gate_exact<const L: usize>(want_bool: bool) {
    let f = setup();
    let mut i = 0;
    while i < L {
        let b: u8 = kani::any();
        kani::assume(b >= 0x20 && b < 0x7f);
        sim::S.SIGBUF[0][i] = b;
        i += 1;
    }
    let sig: &'static str = core::str::from_utf8_unchecked(&sim::S.SIGBUF[0][..L]);
    let verdict = oracle_ret_is_bool(&sim::S.SIGBUF[0][..L]);
    kani::assume(verdict == Some(want_bool));
    let mut inj = InjectorPP::new();
    sim::S.NO_TOUCH = !want_bool;
    inj.when_called(FuncPtr::new(f as *const (), sig)).will_return_boolean(kani::any());
    assert!(want_bool, "VERIF[C10]: a forced boolean result was accepted for a function whose return type is not bool");
    assert!(sim::ENT[0].nwrites == 1 && sim::live_jits() == 1, "VERIF[C10]: a bool-returning target was accepted but nothing was installed");
    kani::cover!(true, "COVER: accepted signature of this length exists");
    core::mem::forget(inj);
}
macro_rules! bool_exact {
    ($name:ident, $l:literal, $want:expr) => {
        #[kani::proof]
        #[kani::unwind(26)]
        #[kani::stub(std::ptr::copy_nonoverlapping, shim_copy)]
        #[kani::stub(crate::injector_core::linuxapi::__clear_cache, shim_clear_cache)]
        #[kani::stub(<*mut u8>::add, shim_add)]
        #[kani::stub(crate::injector_core::common::allocate_jit_memory, shim_allocate_jit_memory)]
        #[kani::stub(str::trim, shim_trim)]
        fn $name() {
            unsafe { bool_gate_exact::<$l>($want) }
        }
    };
}
bool_exact!(bool_gate_refuses_len15, 15, false);
bool_exact!(bool_gate_refuses_len20, 20, false);
bool_exact!(bool_gate_accepts_len12, 12, true);
