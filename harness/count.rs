//! Call counting: scope-exit verification (C06, C05) and "counting starts from zero for every
//! installation" (C07).  x86-64 Linux variant.
use crate::interface::injector::*;
use crate::verif::rt::*;
use libc::sim;
use std::sync::atomic::{AtomicUsize, Ordering};

// non-zero initial value on purpose (Kani aliases zero-initialised statics with std constants)
static CNT: AtomicUsize = AtomicUsize::new(0x5eed_0001_0002_0003);

/// scope exit must stay silent when the count matches, and ALWAYS when the thread is already panicking
#[kani::proof]
#[kani::stub(std::thread::panicking, shim_panicking)]
fn verifier_quiet() {
    unsafe {
        sim::S.PANICKING = kani::any();
        let c: usize = kani::any();
        let e: usize = kani::any();
        kani::assume(sim::S.PANICKING || c == e);
        CNT.store(c, Ordering::SeqCst);
        let v = CallCountVerifier::WithCount { counter: &CNT, expected: e };
        drop(v);
        kani::cover!(sim::S.PANICKING && c != e, "COVER: mismatch while already unwinding");
        kani::cover!(!sim::S.PANICKING && c == e, "COVER: exact count, normal exit");
        let d = CallCountVerifier::Dummy;
        drop(d);
    }
}

/// a count that differs from the expectation must be reported at scope exit (when not unwinding)
#[kani::proof]
#[kani::stub(std::thread::panicking, shim_panicking)]
fn verifier_loud() {
    unsafe {
        sim::S.PANICKING = false;
        let c: usize = kani::any();
        let e: usize = kani::any();
        kani::assume(c != e);
        CNT.store(c, Ordering::SeqCst);
        let v = CallCountVerifier::WithCount { counter: &CNT, expected: e };
        drop(v);
        assert!(false, "VERIF[C06]: a call count different from the expectation went unreported at scope exit");
    }
}

fn budget() -> usize {
    unsafe { sim::S.CELL[0] as usize }
}
fn build() -> (FuncPtr, CallCountVerifier) {
    crate::fake!(
        func_type: fn() -> bool,
        returns: true,
        times: budget()
    )
}

/// The same `fake!(.., times: N)` expression was evaluated in earlier lifetimes and absorbed `c`
/// calls there (c arbitrary).  Installing it again must start counting from zero: the first
/// N calls are admitted and scope exit is silent after exactly N calls.
#[kani::proof]
#[kani::unwind(26)]
#[kani::stub(std::ptr::copy_nonoverlapping, shim_copy)]
#[kani::stub(crate::injector_core::linuxapi::__clear_cache, shim_clear_cache)]
#[kani::stub(<*mut u8>::add, shim_add)]
#[kani::stub(crate::injector_core::common::allocate_jit_memory, shim_allocate_jit_memory)]
fn count_restarts_per_installation() {
    unsafe {
        sim::reset();
        sim::S.NE_ACT = 1;
        sim::S.NJ_ACT = 1;
        sim::S.PAGE = 4096;
        sim::S.COOP_RANGE = crate::verif::VARIANT_RANGE;
        sim::S.REQUIRE_LOCK = true;
        let f = any_entry_addr();
        sim::register_entry(0, f, 16, kani::any());
        let n: usize = kani::any();
        kani::assume(n >= 1 && n <= 2);
        sim::S.CELL[0] = n as u64;
        // create the injector first: Vec::new() must run while the counter still holds its
        // initial value (see the aliasing note in shims/libc)
        let mut inj = InjectorPP::new();
        let pair = build();
        let ctr: &'static AtomicUsize = match &pair.1 {
            CallCountVerifier::WithCount { counter, .. } => *counter,
            _ => {
                assert!(false, "VERIF[C07]: no verifier");
                return;
            }
        };
        let c: usize = kani::any();
        ctr.store(c, Ordering::SeqCst); // calls absorbed by earlier installations of this call site
        let raw = pair.0.__verif_raw();
        inj.when_called(FuncPtr::new(f as *const (), "fn() -> bool")).will_execute(pair);
        assert!(ctr.load(Ordering::SeqCst) == 0, "VERIF[C07,C05]: calls absorbed by an earlier installation of the same fake! expression (whatever way it ended) still count toward this installation");
        let fk: fn() -> bool = std::mem::transmute::<*const (), fn() -> bool>(raw);
        let mut i = 0;
        while i < 2 {
            if i < n {
                let r = fk();
                assert!(r, "VERIF[C07]: admitted call returned the wrong value");
            }
            i += 1;
        }
        kani::cover!(c > 0 && n == 2, "COVER: leftover count, two admitted calls");
        drop(inj);
        kani::cover!(c >= 2, "COVER: scope exit after exactly N calls with a leftover count");
    }
}
