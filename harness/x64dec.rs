//! Independent x86-64 interpreter for the handful of instructions a patch may consist of.
//! Written from the Intel SDM encodings; shares no code with injectorpp.
//!   E9 rel32            jmp rel32
//!   48 B8 imm64         mov rax, imm64
//!   FF E0               jmp rax
//!   48 C7 C0 imm32      mov rax, sign-extended imm32
//!   C3                  ret
//! Anything else stops the interpreter with `bad = true`.
use libc::sim;

#[derive(Clone, Copy)]
pub struct Cpu {
    /// rax, rcx, rdx, rbx, rsp(unused), rbp, rsi, rdi, r8..r15
    pub regs: [u64; 16],
    pub rsp: u64,
    /// value on top of the stack at the call (the caller's return address)
    pub ret_addr: u64,
    pub pc: u64,
    /// an undecodable byte sequence or a fetch from unmapped/stale memory was met
    pub bad: bool,
    /// a `ret` was executed
    pub returned: bool,
    /// memory was written
    pub wrote_mem: bool,
    /// an instruction byte was fetched that had not been flushed
    pub fetched_dirty: bool,
}

pub fn any_cpu(start: u64) -> Cpu {
    Cpu {
        regs: kani::any(),
        rsp: kani::any(),
        ret_addr: kani::any(),
        pc: start,
        bad: false,
        returned: false,
        wrote_mem: false,
        fetched_dirty: false,
    }
}

/// contents of the live region that starts at `pc`, copied out BY VALUE.
/// (References into the `static mut` region tables with an index >= 1, and `Option<(bool,usize)>`
/// results, were measured to give wrong answers under Kani 0.68 although the same code is right
/// natively; plain structs copied by value are not affected.)
pub struct Fetch {
    pub found: bool,
    pub bytes: [u8; sim::RLEN],
    pub dirty: [bool; sim::RLEN],
}
fn fetch(pc: u64) -> Fetch {
    let mut f = Fetch { found: false, bytes: [0; sim::RLEN], dirty: [false; sim::RLEN] };
    unsafe {
        let mut i = 0;
        while i < sim::S.NE_ACT {
            if !f.found && sim::ENT[i].live && sim::ENT[i].base == pc {
                f.found = true;
                f.bytes = sim::ENT[i].bytes;
                f.dirty = sim::ENT[i].dirty;
            }
            i += 1;
        }
        let mut j = 0;
        while j < sim::S.NJ_ACT {
            if !f.found && sim::JIT[j].live && sim::JIT[j].base == pc {
                f.found = true;
                f.bytes = sim::JIT[j].bytes;
                f.dirty = sim::JIT[j].dirty;
            }
            j += 1;
        }
    }
    f
}

/// is `pc` inside (not at the start of) a modelled region, or inside a page that held a
/// trampoline which has since been unmapped
pub fn inside_some_region(pc: u64) -> bool {
    unsafe {
        let mut i = 0;
        while i < sim::S.NE_ACT {
            if sim::ENT[i].live && pc > sim::ENT[i].base && pc < sim::ENT[i].base + sim::RLEN as u64 {
                return true;
            }
            i += 1;
        }
        let mut j = 0;
        while j < sim::S.NJ_ACT {
            if sim::JIT[j].base != 0 && pc >= sim::JIT[j].base && pc < sim::JIT[j].base + sim::S.PAGE {
                if !(sim::JIT[j].live && pc == sim::JIT[j].base) {
                    return true;
                }
            }
            j += 1;
        }
        false
    }
}

fn le32(b: &[u8; sim::RLEN], o: usize) -> u32 {
    u32::from_le_bytes([b[o], b[o + 1], b[o + 2], b[o + 3]])
}
fn le64(b: &[u8; sim::RLEN], o: usize) -> u64 {
    (le32(b, o) as u64) | ((le32(b, o + 4) as u64) << 32)
}
fn any_dirty(d: &[bool; sim::RLEN], n: usize) -> bool {
    let mut r = false;
    let mut k = 0;
    while k < 12 {
        if k < n && d[k] {
            r = true;
        }
        k += 1;
    }
    r
}

/// Execute the instructions at the start of region `r` until control is transferred.
/// Instruction boundaries are concrete: a block is one of
///   E9 rel32 | 48 B8 imm64 ; FF E0 | 48 B8 imm64 ; C3 | 48 C7 C0 imm32 ; C3 | 48 C7 C0 imm32 ; FF E0 | FF E0 | C3
fn exec_block(cpu: &mut Cpu, base: u64, b: &[u8; sim::RLEN], d: &[bool; sim::RLEN]) -> bool {
    let used;
    if b[0] == 0xE9 {
        let rel = le32(b, 1) as i32 as i64 as u64;
        cpu.pc = base.wrapping_add(5).wrapping_add(rel);
        used = 5;
    } else if b[0] == 0xFF && b[1] == 0xE0 {
        cpu.pc = cpu.regs[0];
        used = 2;
    } else if b[0] == 0xC3 {
        cpu.pc = cpu.ret_addr;
        cpu.rsp = cpu.rsp.wrapping_add(8);
        cpu.returned = true;
        used = 1;
    } else if b[0] == 0x48 && b[1] == 0xB8 {
        cpu.regs[0] = le64(b, 2);
        if b[10] == 0xFF && b[11] == 0xE0 {
            cpu.pc = cpu.regs[0];
            used = 12;
        } else if b[10] == 0xC3 {
            cpu.pc = cpu.ret_addr;
            cpu.rsp = cpu.rsp.wrapping_add(8);
            cpu.returned = true;
            used = 11;
        } else {
            cpu.bad = true;
            return false;
        }
    } else if b[0] == 0x48 && b[1] == 0xC7 && b[2] == 0xC0 {
        cpu.regs[0] = le32(b, 3) as i32 as i64 as u64;
        if b[7] == 0xC3 {
            cpu.pc = cpu.ret_addr;
            cpu.rsp = cpu.rsp.wrapping_add(8);
            cpu.returned = true;
            used = 8;
        } else if b[7] == 0xFF && b[8] == 0xE0 {
            cpu.pc = cpu.regs[0];
            used = 9;
        } else {
            cpu.bad = true;
            return false;
        }
    } else {
        cpu.bad = true;
        return false;
    }
    if any_dirty(d, used) {
        cpu.fetched_dirty = true;
    }
    true
}

/// Run from cpu.pc until control leaves the modelled regions (or `ret`), at most `max` blocks.
pub fn run(cpu: &mut Cpu, max: usize) {
    let mut n = 0;
    while n < max {
        if cpu.returned || cpu.bad {
            return;
        }
        let f = fetch(cpu.pc);
        if !f.found {
            if inside_some_region(cpu.pc) {
                cpu.bad = true;
            }
            return;
        }
        let pc = cpu.pc;
        exec_block(cpu, pc, &f.bytes, &f.dirty);
        n += 1;
    }
    // still inside patched code after `max` blocks: a cycle
    if !cpu.returned && !cpu.bad && fetch(cpu.pc).found {
        cpu.bad = true;
    }
}

/// execute exactly the block at cpu.pc
pub fn run_one_block(cpu: &mut Cpu) {
    let f = fetch(cpu.pc);
    if !f.found {
        cpu.bad = true;
        return;
    }
    let pc = cpu.pc;
    exec_block(cpu, pc, &f.bytes, &f.dirty);
}

/// all registers except rax (index 0) equal, stack pointer equal, no memory written
pub fn transparent_except_rax(a: &Cpu, b: &Cpu) -> bool {
    let mut ok = a.rsp == b.rsp && !b.wrote_mem;
    let mut i = 1;
    while i < 16 {
        if a.regs[i] != b.regs[i] {
            ok = false;
        }
        i += 1;
    }
    ok
}
