//! Independent x86-64 interpreter for the handful of instructions a patch may consist of.
//! Written from the Intel SDM encodings; shares no code with injectorpp.
//!   E9 rel32 / EB rel8            jmp rel32 / jmp rel8
//!   REX.W(B) B8+r imm64           mov r64, imm64        (any register)
//!   [41] FF E0+r                  jmp r64               (any register)
//!   REX.W(B) C7 C0+r imm32        mov r64, sign-extended imm32
//!   C3                            ret
//! Anything else stops the interpreter with `bad = true`.
use libc::sim;

#[derive(Clone, Copy)]
pub struct Cpu {
    /// rax, rcx, rdx, rbx, rsp(unused), rbp, rsi, rdi, r8..r15
    pub regs: [u64; 16],
    pub rsp: u64,
    /// value on top of the stack at the call (the caller's return address)
    pub ret_addr: u64,
    pub pc: u64,
    /// an undecodable byte sequence or a fetch from unmapped/stale memory was met
    pub bad: bool,
    /// a `ret` was executed
    pub returned: bool,
    /// memory was written
    pub wrote_mem: bool,
    /// an instruction byte was fetched that had not been flushed
    pub fetched_dirty: bool,
}

pub fn any_cpu(start: u64) -> Cpu {
    Cpu {
        regs: kani::any(),
        rsp: kani::any(),
        ret_addr: kani::any(),
        pc: start,
        bad: false,
        returned: false,
        wrote_mem: false,
        fetched_dirty: false,
    }
}

/// contents of the live region that starts at `pc`, copied out BY VALUE.
/// (References into the `static mut` region tables with an index >= 1, and `Option<(bool,usize)>`
/// results, were measured to give wrong answers under Kani 0.68 although the same code is right
/// natively; plain structs copied by value are not affected.)
pub struct Fetch {
    pub found: bool,
    /// the region's page is currently not executable
    pub noexec: bool,
    pub bytes: [u8; sim::RLEN],
    pub dirty: [bool; sim::RLEN],
}
fn fetch(pc: u64) -> Fetch {
    let mut f = Fetch { found: false, noexec: false, bytes: [0; sim::RLEN], dirty: [false; sim::RLEN] };
    unsafe {
        let mut i = 0;
        while i < sim::S.NE_ACT {
            if !f.found && sim::ENT[i].live && sim::ENT[i].base == pc {
                f.found = true;
                f.bytes = sim::ENT[i].bytes;
                f.dirty = sim::ENT[i].dirty;
                f.noexec = sim::ENT[i].noexec;
            }
            i += 1;
        }
        let mut j = 0;
        while j < sim::S.NJ_ACT {
            if !f.found && sim::JIT[j].live && sim::JIT[j].base == pc {
                f.found = true;
                f.bytes = sim::JIT[j].bytes;
                f.dirty = sim::JIT[j].dirty;
                f.noexec = sim::JIT[j].noexec;
            }
            j += 1;
        }
    }
    f
}

/// is `pc` inside (not at the start of) a modelled region, or inside a page that held a
/// trampoline which has since been unmapped
pub fn inside_some_region(pc: u64) -> bool {
    unsafe {
        let mut i = 0;
        while i < sim::S.NE_ACT {
            if sim::ENT[i].live && pc > sim::ENT[i].base && pc < sim::ENT[i].base + sim::RLEN as u64 {
                return true;
            }
            i += 1;
        }
        let mut j = 0;
        while j < sim::S.NJ_ACT {
            if sim::JIT[j].base != 0 && pc >= sim::JIT[j].base && pc < sim::JIT[j].base + sim::S.PAGE {
                if !(sim::JIT[j].live && pc == sim::JIT[j].base) {
                    return true;
                }
            }
            j += 1;
        }
        false
    }
}

fn le32(b: &[u8; sim::RLEN], o: usize) -> u32 {
    u32::from_le_bytes([b[o], b[o + 1], b[o + 2], b[o + 3]])
}
fn le64(b: &[u8; sim::RLEN], o: usize) -> u64 {
    (le32(b, o) as u64) | ((le32(b, o + 4) as u64) << 32)
}
fn any_dirty(d: &[bool; sim::RLEN], n: usize) -> bool {
    let mut r = false;
    let mut k = 0;
    while k < sim::RLEN {
        if k < n && d[k] {
            r = true;
        }
        k += 1;
    }
    r
}

/// byte `i` of the block, 0 beyond the modelled bytes (symbolic index made explicit: a 24-way select)
fn at(b: &[u8; sim::RLEN], i: usize) -> u8 {
    if i < sim::RLEN {
        b[i]
    } else {
        0
    }
}
fn at32(b: &[u8; sim::RLEN], o: usize) -> u32 {
    u32::from_le_bytes([at(b, o), at(b, o + 1), at(b, o + 2), at(b, o + 3)])
}

/// decode one instruction at offset `o` of block `b`; returns (length, transferred); length 0 = undecodable
fn exec_insn(cpu: &mut Cpu, base: u64, b: &[u8; sim::RLEN], o: usize) -> (usize, bool) {
    let (b0, b1, b2) = (at(b, o), at(b, o + 1), at(b, o + 2));
    if b0 == 0xE9 {
        let rel = at32(b, o + 1) as i32 as i64 as u64;
        cpu.pc = base.wrapping_add(o as u64).wrapping_add(5).wrapping_add(rel);
        return (5, true);
    }
    if b0 == 0xEB {
        // jmp rel8
        let rel = b1 as i8 as i64 as u64;
        cpu.pc = base.wrapping_add(o as u64).wrapping_add(2).wrapping_add(rel);
        return (2, true);
    }
    if b0 == 0xC3 {
        cpu.pc = cpu.ret_addr;
        cpu.rsp = cpu.rsp.wrapping_add(8);
        cpu.returned = true;
        return (1, true);
    }
    if b0 == 0x90 {
        return (1, false); // nop
    }
    if b0 == 0xFF && b1 & 0xF8 == 0xE0 {
        // jmp r64 (rax..rdi)
        let r = (b1 & 7) as usize;
        cpu.pc = if r == 4 { cpu.rsp } else { cpu.regs[r] };
        return (2, true);
    }
    if b0 == 0xFF && b1 & 0xF8 == 0xD0 {
        // call r64: pushes a return address (memory write, rsp moves)
        let r = (b1 & 7) as usize;
        cpu.rsp = cpu.rsp.wrapping_sub(8);
        cpu.wrote_mem = true;
        cpu.pc = if r == 4 { cpu.rsp } else { cpu.regs[r] };
        return (2, true);
    }
    if b0 == 0x41 && b1 == 0xFF && b2 & 0xF8 == 0xE0 {
        // jmp r8..r15
        cpu.pc = cpu.regs[8 + (b2 & 7) as usize];
        return (3, true);
    }
    if (b0 == 0x48 || b0 == 0x49) && b1 & 0xF8 == 0xB8 {
        // mov r64, imm64
        let r = (b1 & 7) as usize + if b0 == 0x49 { 8 } else { 0 };
        let v = (at32(b, o + 2) as u64) | ((at32(b, o + 6) as u64) << 32);
        if r == 4 {
            cpu.rsp = v;
        } else {
            cpu.regs[r] = v;
        }
        return (10, false);
    }
    if (b0 == 0x48 || b0 == 0x49) && b1 == 0xC7 && b2 & 0xF8 == 0xC0 {
        // mov r64, sign-extended imm32
        let r = (b2 & 7) as usize + if b0 == 0x49 { 8 } else { 0 };
        let v = at32(b, o + 3) as i32 as i64 as u64;
        if r == 4 {
            cpu.rsp = v;
        } else {
            cpu.regs[r] = v;
        }
        return (7, false);
    }
    if b0 == 0x48 && b1 == 0x83 && (b2 == 0xEC || b2 == 0xC4) {
        // sub rsp, imm8 / add rsp, imm8
        let imm = at(b, o + 3) as i8 as i64 as u64;
        cpu.rsp = if b2 == 0xEC { cpu.rsp.wrapping_sub(imm) } else { cpu.rsp.wrapping_add(imm) };
        return (4, false);
    }
    (0, false)
}

/// Execute the instructions at the start of a block until control is transferred (at most 4
/// instructions, all inside the modelled bytes).
fn exec_block(cpu: &mut Cpu, base: u64, b: &[u8; sim::RLEN], d: &[bool; sim::RLEN]) -> bool {
    let mut o = 0usize;
    let mut n = 0;
    let mut done = false;
    while n < 4 {
        if !done && !cpu.bad {
            let (l, t) = exec_insn(cpu, base, b, o);
            if l == 0 || o + l > sim::RLEN {
                cpu.bad = true;
            } else {
                o += l;
                if t {
                    done = true;
                }
            }
        }
        n += 1;
    }
    if !done {
        cpu.bad = true;
    }
    if cpu.bad {
        return false;
    }
    if any_dirty(d, o) {
        cpu.fetched_dirty = true;
    }
    true
}

/// entry point for the native oracle cross-check (tools/oracle_check)
pub fn exec_block_pub(cpu: &mut Cpu, base: u64, b: &[u8; sim::RLEN]) -> bool {
    exec_block(cpu, base, b, &[false; sim::RLEN])
}

/// Run from cpu.pc until control leaves the modelled regions (or `ret`), at most `max` blocks.
pub fn run(cpu: &mut Cpu, max: usize) {
    let mut n = 0;
    while n < max {
        if cpu.returned || cpu.bad {
            return;
        }
        let f = fetch(cpu.pc);
        if !f.found {
            if inside_some_region(cpu.pc) {
                cpu.bad = true;
            }
            return;
        }
        if f.noexec {
            cpu.bad = true; // instruction fetch from a page without execute permission
            return;
        }
        let pc = cpu.pc;
        exec_block(cpu, pc, &f.bytes, &f.dirty);
        n += 1;
    }
    // still inside patched code after `max` blocks: a cycle
    if !cpu.returned && !cpu.bad && fetch(cpu.pc).found {
        cpu.bad = true;
    }
}

/// execute exactly the block at cpu.pc
pub fn run_one_block(cpu: &mut Cpu) {
    let f = fetch(cpu.pc);
    if !f.found || f.noexec {
        cpu.bad = true;
        return;
    }
    let pc = cpu.pc;
    exec_block(cpu, pc, &f.bytes, &f.dirty);
}

/// Every register except the non-argument caller-saved temporaries (rax, r10, r11) is equal,
/// the stack pointer is equal and no memory was written.  rcx/rdx/rsi/rdi/r8/r9 carry arguments,
/// rbx/rbp/r12-r15 are callee-saved.
pub fn transparent_except_rax(a: &Cpu, b: &Cpu) -> bool {
    let mut ok = a.rsp == b.rsp && !b.wrote_mem;
    let mut i = 1;
    while i < 16 {
        if i != 10 && i != 11 && a.regs[i] != b.regs[i] {
            ok = false;
        }
        i += 1;
    }
    ok
}
