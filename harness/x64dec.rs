//! Independent x86-64 interpreter for the handful of instructions a patch may consist of.
//! Written from the Intel SDM encodings; shares no code with injectorpp.
//!   E9 rel32            jmp rel32
//!   48 B8 imm64         mov rax, imm64
//!   FF E0               jmp rax
//!   48 C7 C0 imm32      mov rax, sign-extended imm32
//!   C3                  ret
//! Anything else stops the interpreter with `bad = true`.
use libc::sim;

#[derive(Clone, Copy)]
pub struct Cpu {
    /// rax, rcx, rdx, rbx, rsp(unused), rbp, rsi, rdi, r8..r15
    pub regs: [u64; 16],
    pub rsp: u64,
    /// value on top of the stack at the call (the caller's return address)
    pub ret_addr: u64,
    pub pc: u64,
    /// an undecodable byte sequence or a fetch from unmapped/stale memory was met
    pub bad: bool,
    /// a `ret` was executed
    pub returned: bool,
    /// memory was written
    pub wrote_mem: bool,
    /// an instruction byte was fetched that had not been flushed
    pub fetched_dirty: bool,
}

pub fn any_cpu(start: u64) -> Cpu {
    Cpu {
        regs: kani::any(),
        rsp: kani::any(),
        ret_addr: kani::any(),
        pc: start,
        bad: false,
        returned: false,
        wrote_mem: false,
        fetched_dirty: false,
    }
}

fn region_at(pc: u64) -> Option<sim::Region> {
    unsafe {
        let mut i = 0;
        while i < sim::NE {
            if sim::ENT[i].live && sim::ENT[i].base == pc {
                return Some(sim::ENT[i]);
            }
            i += 1;
        }
        let mut j = 0;
        while j < sim::NJ {
            if sim::JIT[j].live && sim::JIT[j].base == pc {
                return Some(sim::JIT[j]);
            }
            j += 1;
        }
        None
    }
}

/// is `pc` inside (not at the start of) a modelled region, live or not
pub fn inside_some_region(pc: u64) -> bool {
    unsafe {
        let mut i = 0;
        while i < sim::NE {
            if sim::ENT[i].live && pc > sim::ENT[i].base && pc < sim::ENT[i].base + sim::RLEN as u64 {
                return true;
            }
            i += 1;
        }
        let mut j = 0;
        while j < sim::NJ {
            // a freed trampoline is unmapped memory: landing there is a crash
            if sim::JIT[j].base != 0 && pc >= sim::JIT[j].base && pc < sim::JIT[j].base + unsafe { sim::PAGE } {
                if !(sim::JIT[j].live && pc == sim::JIT[j].base) {
                    return true;
                }
            }
            j += 1;
        }
        false
    }
}

fn le32(b: &[u8; sim::RLEN], o: usize) -> u32 {
    u32::from_le_bytes([b[o], b[o + 1], b[o + 2], b[o + 3]])
}
fn le64(b: &[u8; sim::RLEN], o: usize) -> u64 {
    (le32(b, o) as u64) | ((le32(b, o + 4) as u64) << 32)
}

/// Execute the block starting at `cpu.pc` (which must be the base of a live region).
/// Returns true if control was transferred (cpu.pc updated), false on `bad`.
fn exec_block(cpu: &mut Cpu, r: &sim::Region) -> bool {
    let b = &r.bytes;
    let mut o = 0usize;
    let mut n = 0;
    while n < 2 {
        // longest instruction is 10 bytes; o <= 10 here
        let op = b[o];
        let len;
        let mut transfer = false;
        if op == 0xE9 {
            len = 5;
            let rel = le32(b, o + 1) as i32 as i64 as u64;
            cpu.pc = r.base.wrapping_add(o as u64).wrapping_add(5).wrapping_add(rel);
            transfer = true;
        } else if op == 0x48 && b[o + 1] == 0xB8 {
            len = 10;
            cpu.regs[0] = le64(b, o + 2);
        } else if op == 0x48 && b[o + 1] == 0xC7 && b[o + 2] == 0xC0 {
            len = 7;
            cpu.regs[0] = le32(b, o + 3) as i32 as i64 as u64;
        } else if op == 0xFF && b[o + 1] == 0xE0 {
            len = 2;
            cpu.pc = cpu.regs[0];
            transfer = true;
        } else if op == 0xC3 {
            len = 1;
            cpu.pc = cpu.ret_addr;
            cpu.rsp = cpu.rsp.wrapping_add(8);
            cpu.returned = true;
            transfer = true;
        } else {
            cpu.bad = true;
            return false;
        }
        let mut k = 0;
        while k < 10 {
            if k < len && r.dirty[o + k] {
                cpu.fetched_dirty = true;
            }
            k += 1;
        }
        if transfer {
            return true;
        }
        o += len;
        n += 1;
    }
    cpu.bad = true;
    false
}

/// Run from cpu.pc until control leaves the modelled regions (or `ret`), at most `max` blocks.
pub fn run(cpu: &mut Cpu, max: usize) {
    let mut n = 0;
    while n < max {
        if cpu.returned {
            return;
        }
        match region_at(cpu.pc) {
            None => {
                if inside_some_region(cpu.pc) {
                    cpu.bad = true;
                }
                return;
            }
            Some(r) => {
                if !exec_block(cpu, &r) {
                    return;
                }
            }
        }
        n += 1;
    }
    // still inside patched code after `max` blocks: a cycle
    if region_at(cpu.pc).is_some() {
        cpu.bad = true;
    }
}

/// all registers except rax (index 0) equal, stack pointer equal, no memory written
pub fn transparent_except_rax(a: &Cpu, b: &Cpu) -> bool {
    let mut ok = a.rsp == b.rsp && !b.wrote_mem;
    let mut i = 1;
    while i < 16 {
        if a.regs[i] != b.regs[i] {
            ok = false;
        }
        i += 1;
    }
    ok
}
