//! Independent x86-64 interpreter for the handful of instructions a patch may consist of.
//! Written from the Intel SDM encodings; shares no code with injectorpp.
//!   E9 rel32                      jmp rel32
//!   REX.W(B) B8+r imm64           mov r64, imm64        (any register)
//!   [41] FF E0+r                  jmp r64               (any register)
//!   REX.W(B) C7 C0+r imm32        mov r64, sign-extended imm32
//!   C3                            ret
//! Anything else stops the interpreter with `bad = true`.
use libc::sim;

#[derive(Clone, Copy)]
pub struct Cpu {
    /// rax, rcx, rdx, rbx, rsp(unused), rbp, rsi, rdi, r8..r15
    pub regs: [u64; 16],
    pub rsp: u64,
    /// value on top of the stack at the call (the caller's return address)
    pub ret_addr: u64,
    pub pc: u64,
    /// an undecodable byte sequence or a fetch from unmapped/stale memory was met
    pub bad: bool,
    /// a `ret` was executed
    pub returned: bool,
    /// memory was written
    pub wrote_mem: bool,
    /// an instruction byte was fetched that had not been flushed
    pub fetched_dirty: bool,
}

pub fn any_cpu(start: u64) -> Cpu {
    Cpu {
        regs: kani::any(),
        rsp: kani::any(),
        ret_addr: kani::any(),
        pc: start,
        bad: false,
        returned: false,
        wrote_mem: false,
        fetched_dirty: false,
    }
}

/// contents of the live region that starts at `pc`, copied out BY VALUE.
/// (References into the `static mut` region tables with an index >= 1, and `Option<(bool,usize)>`
/// results, were measured to give wrong answers under Kani 0.68 although the same code is right
/// natively; plain structs copied by value are not affected.)
pub struct Fetch {
    pub found: bool,
    /// the region's page is currently not executable
    pub noexec: bool,
    pub bytes: [u8; sim::RLEN],
    pub dirty: [bool; sim::RLEN],
}
fn fetch(pc: u64) -> Fetch {
    let mut f = Fetch { found: false, noexec: false, bytes: [0; sim::RLEN], dirty: [false; sim::RLEN] };
    unsafe {
        let mut i = 0;
        while i < sim::S.NE_ACT {
            if !f.found && sim::ENT[i].live && sim::ENT[i].base == pc {
                f.found = true;
                f.bytes = sim::ENT[i].bytes;
                f.dirty = sim::ENT[i].dirty;
                f.noexec = sim::ENT[i].noexec;
            }
            i += 1;
        }
        let mut j = 0;
        while j < sim::S.NJ_ACT {
            if !f.found && sim::JIT[j].live && sim::JIT[j].base == pc {
                f.found = true;
                f.bytes = sim::JIT[j].bytes;
                f.dirty = sim::JIT[j].dirty;
                f.noexec = sim::JIT[j].noexec;
            }
            j += 1;
        }
    }
    f
}

/// is `pc` inside (not at the start of) a modelled region, or inside a page that held a
/// trampoline which has since been unmapped
pub fn inside_some_region(pc: u64) -> bool {
    unsafe {
        let mut i = 0;
        while i < sim::S.NE_ACT {
            if sim::ENT[i].live && pc > sim::ENT[i].base && pc < sim::ENT[i].base + sim::RLEN as u64 {
                return true;
            }
            i += 1;
        }
        let mut j = 0;
        while j < sim::S.NJ_ACT {
            if sim::JIT[j].base != 0 && pc >= sim::JIT[j].base && pc < sim::JIT[j].base + sim::S.PAGE {
                if !(sim::JIT[j].live && pc == sim::JIT[j].base) {
                    return true;
                }
            }
            j += 1;
        }
        false
    }
}

fn le32(b: &[u8; sim::RLEN], o: usize) -> u32 {
    u32::from_le_bytes([b[o], b[o + 1], b[o + 2], b[o + 3]])
}
fn le64(b: &[u8; sim::RLEN], o: usize) -> u64 {
    (le32(b, o) as u64) | ((le32(b, o + 4) as u64) << 32)
}
fn any_dirty(d: &[bool; sim::RLEN], n: usize) -> bool {
    let mut r = false;
    let mut k = 0;
    while k < 16 {
        if k < n && d[k] {
            r = true;
        }
        k += 1;
    }
    r
}

/// decode one instruction at the CONCRETE offset `o` of block `b`.
/// returns (length, transferred); length 0 = undecodable
fn exec_insn(cpu: &mut Cpu, base: u64, b: &[u8; sim::RLEN], o: usize) -> (usize, bool) {
    let op = b[o];
    // optional REX prefix 0x48 (W) / 0x49 (W+B) / 0x41 (B)
    if op == 0xE9 {
        let rel = le32(b, o + 1) as i32 as i64 as u64;
        cpu.pc = base.wrapping_add(o as u64).wrapping_add(5).wrapping_add(rel);
        return (5, true);
    }
    if op == 0xC3 {
        cpu.pc = cpu.ret_addr;
        cpu.rsp = cpu.rsp.wrapping_add(8);
        cpu.returned = true;
        return (1, true);
    }
    if op == 0xFF && b[o + 1] & 0xF8 == 0xE0 {
        // jmp r64 (rax..rdi)
        let r = (b[o + 1] & 7) as usize;
        cpu.pc = if r == 4 { cpu.rsp } else { cpu.regs[r] };
        return (2, true);
    }
    if op == 0x41 && b[o + 1] == 0xFF && b[o + 2] & 0xF8 == 0xE0 {
        // jmp r8..r15
        cpu.pc = cpu.regs[8 + (b[o + 2] & 7) as usize];
        return (3, true);
    }
    if (op == 0x48 || op == 0x49) && b[o + 1] & 0xF8 == 0xB8 {
        // mov r64, imm64
        let r = (b[o + 1] & 7) as usize + if op == 0x49 { 8 } else { 0 };
        let v = le64(b, o + 2);
        if r == 4 {
            cpu.rsp = v;
        } else {
            cpu.regs[r] = v;
        }
        return (10, false);
    }
    if (op == 0x48 || op == 0x49) && b[o + 1] == 0xC7 && b[o + 2] & 0xF8 == 0xC0 {
        // mov r64, sign-extended imm32
        let r = (b[o + 2] & 7) as usize + if op == 0x49 { 8 } else { 0 };
        let v = le32(b, o + 3) as i32 as i64 as u64;
        if r == 4 {
            cpu.rsp = v;
        } else {
            cpu.regs[r] = v;
        }
        return (7, false);
    }
    (0, false)
}

/// Execute the instructions at the start of a block until control is transferred.
/// A block is at most two instructions (a move followed by a transfer, or a transfer alone);
/// the second instruction starts at offset 7 or 10, so every offset is concrete.
fn exec_block(cpu: &mut Cpu, base: u64, b: &[u8; sim::RLEN], d: &[bool; sim::RLEN]) -> bool {
    let (l1, t1) = exec_insn(cpu, base, b, 0);
    if l1 == 0 {
        cpu.bad = true;
        return false;
    }
    let mut used = l1;
    if !t1 {
        let (l2, t2) = if l1 == 10 { exec_insn(cpu, base, b, 10) } else { exec_insn(cpu, base, b, 7) };
        if l2 == 0 || !t2 {
            cpu.bad = true;
            return false;
        }
        used = l1 + l2;
    }
    if any_dirty(d, used) {
        cpu.fetched_dirty = true;
    }
    true
}

/// Run from cpu.pc until control leaves the modelled regions (or `ret`), at most `max` blocks.
pub fn run(cpu: &mut Cpu, max: usize) {
    let mut n = 0;
    while n < max {
        if cpu.returned || cpu.bad {
            return;
        }
        let f = fetch(cpu.pc);
        if !f.found {
            if inside_some_region(cpu.pc) {
                cpu.bad = true;
            }
            return;
        }
        if f.noexec {
            cpu.bad = true; // instruction fetch from a page without execute permission
            return;
        }
        let pc = cpu.pc;
        exec_block(cpu, pc, &f.bytes, &f.dirty);
        n += 1;
    }
    // still inside patched code after `max` blocks: a cycle
    if !cpu.returned && !cpu.bad && fetch(cpu.pc).found {
        cpu.bad = true;
    }
}

/// execute exactly the block at cpu.pc
pub fn run_one_block(cpu: &mut Cpu) {
    let f = fetch(cpu.pc);
    if !f.found || f.noexec {
        cpu.bad = true;
        return;
    }
    let pc = cpu.pc;
    exec_block(cpu, pc, &f.bytes, &f.dirty);
}

/// Every register except the non-argument caller-saved temporaries (rax, r10, r11) is equal,
/// the stack pointer is equal and no memory was written.  rcx/rdx/rsi/rdi/r8/r9 carry arguments,
/// rbx/rbp/r12-r15 are callee-saved.
pub fn transparent_except_rax(a: &Cpu, b: &Cpu) -> bool {
    let mut ok = a.rsp == b.rsp && !b.wrote_mem;
    let mut i = 1;
    while i < 16 {
        if i != 10 && i != 11 && a.regs[i] != b.regs[i] {
            ok = false;
        }
        i += 1;
    }
    ok
}
